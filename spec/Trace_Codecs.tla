---------------------------- MODULE Trace_Codecs ----------------------------
(* Trace validation for C12: every log line is one recorded call (chain) of the real codec functions
   (harness/drv_codecs.c).  A line is accepted iff everything the real functions made observable equals what
   Codecs.tla computes for the same input:
     evc / evp / edd   encoder on a background buffer:  ok, the output buffer (rejection => buffer = background);
                       then the decoder on that output and the encoder on what was decoded (dok, back, rok, re)
     dvc / dvp / ddd   the same chain on an arbitrary buffer
     t1                packet 8/30 format 1: CNI, time as (days, second of the day), offset; refusal leaves the outputs untouched
     t2                packet 8/30 format 2: CNI (refused / delivered as allowed by the spec), the whole PID
   Where the transmitter of the check says what it meant (v), the packet must be the spec's encoding of v
   (Enc830x(clean packet, v) = clean packet, clean = the packet without the injected bit errors v.flips).
   The property is also checked directly on the recorded values: ReEncode (re = the decoded buffer unless its raw
   VPS code is 0xDC3), Tolerant (at most one flipped bit per Hamming byte => the decoded PID is v). *)
EXTENDS Codecs, Json, IOUtils

Log == ndJsonDeserialize(IOEnv.TRACEFILE)
VARIABLE l
Ev == Log[l]

Unflip(buf, flips) == LET f[i \in 0..Len(flips)] == IF i = 0 THEN buf ELSE FlipBit(f[i - 1], flips[i]) IN f[Len(flips)]

\* decode buf, re-encode what was decoded into a copy of buf
Chain(kind, buf) ==
  CASE kind = "c" -> LET c == DecVpsCni(buf)  r == EncVpsCni(buf, c)
                     IN [dok |-> 1, back |-> c, rok |-> B(r.ok), re |-> r.buf]
    [] kind = "p" -> LET d == DecVpsPdc(buf)  r == EncVpsPdc(buf, d.pid)
                     IN [dok |-> 1, back |-> d.pid, rok |-> B(r.ok), re |-> r.buf]
    [] kind = "d" -> LET d == DecDvb(buf)
                     IN IF d.ok THEN LET r == EncDvb(buf, d.pid) IN [dok |-> 1, back |-> d.pid, rok |-> B(r.ok), re |-> r.buf]
                        ELSE [dok |-> 0, dsame |-> 1, rok |-> -1, re |-> buf]

Expect(e) ==
  CASE e.f = "evc" -> LET r == EncVpsCni(e.bg, e.cni) IN [ok |-> B(r.ok), out |-> r.buf] @@ Chain("c", e.out)
    [] e.f = "evp" -> LET r == EncVpsPdc(e.bg, e.p) IN [ok |-> B(r.ok), out |-> r.buf] @@ Chain("p", e.out)
    [] e.f = "edd" -> LET r == EncDvb(e.bg, e.p) IN [ok |-> B(r.ok), out |-> r.buf] @@ Chain("d", e.out)
    [] e.f = "dvc" -> Chain("c", e.buf)
    [] e.f = "dvp" -> Chain("p", e.buf)
    [] e.f = "ddd" -> Chain("d", e.buf)
    [] e.f = "t1"  -> LET t == Dec8301Time(e.buf)
                      IN [cok |-> 1, cni |-> Dec8301Cni(e.buf)] @@
                         (IF t.ok THEN [tok |-> 1, days |-> t.days, secs |-> t.secs, east |-> t.east] ELSE [tok |-> 0, tsame |-> 1])
    [] e.f = "t2"  -> LET d == Dec8302Pdc(e.buf)
                      IN IF d.ok THEN [pok |-> 1, pid |-> d.pid] ELSE [pok |-> 0, psame |-> 1]

\* the format 2 CNI function may or may not look at the bytes that carry no CNI bit
Cni8302OK(e) == /\ e.cok \in {0, 1}
                /\ Dec8302CniMustReject(e.buf) => e.cok = 0
                /\ Dec8302CniMustAccept(e.buf) => e.cok = 1
                /\ e.cok = 1 => e.cni = Dec8302CniValue(e.buf)
                /\ e.cok = 0 => e.csame = 1

\* the packet is what the transmitter meant
Meant(e) == "v" \in DOMAIN e =>
              CASE e.f = "t1" -> P1InRange(e.v) /\ Enc8301(e.buf, e.v) = e.buf
                [] e.f = "t2" -> LET clean == Unflip(e.buf, e.v.flips) IN P2InRange(e.v) /\ Enc8302(clean, e.v) = clean

\* the property, directly on the recorded values
OnePerByte(flips) == \A i, j \in 1..Len(flips) : i # j => flips[i] \div 8 # flips[j] \div 8
Direct(e) ==
  CASE e.f \in {"evc", "dvc"} -> LET b == IF e.f = "evc" THEN e.out ELSE e.buf IN VpsRawCni(b) # 3523 => e.re = b
    [] e.f \in {"evp", "dvp"} -> LET b == IF e.f = "evp" THEN e.out ELSE e.buf IN VpsRawCni(b) # 3523 => e.re = b
    [] e.f = "edd" -> e.ok = 1 => e.re = e.out
    [] e.f = "t2"  -> ("v" \in DOMAIN e /\ OnePerByte(e.v.flips)) =>
                         (e.pok = 1 /\ e.cok = 1 /\ e.cni = e.v.cni /\
                          e.pid = Pid(e.v.lci, Ct8302, e.v.cni, e.v.pil, e.v.luf, e.v.mi, e.v.prf, e.v.pcs, e.v.pty))
    [] OTHER -> TRUE

Matches(e) == LET ex == Expect(e) IN \A k \in DOMAIN ex : k \in DOMAIN e /\ e[k] = ex[k]
RecOK(e) == Matches(e) /\ (e.f = "t2" => Cni8302OK(e)) /\ Meant(e) /\ Direct(e)

TInit == l = 1
TNext == l <= Len(Log) /\ RecOK(Ev) /\ l' = l + 1
TSpec == TInit /\ [][TNext]_l

\* which part of the verdict failed, for the report
Why(e) == [expect |-> Expect(e), matches |-> Matches(e), cni8302 |-> (e.f = "t2" => Cni8302OK(e)), meant |-> Meant(e), direct |-> Direct(e)]
TraceAccepted == LET n == TLCGet("stats").diameter - 1 IN
                 IF n = Len(Log) THEN TRUE
                 ELSE PrintT(<<"TV-REJECT", n + 1, Len(Log)>>) /\ PrintT(<<"TV-WHY", ToJson(Why(Log[n + 1]))>>) /\ FALSE
=============================================================================
