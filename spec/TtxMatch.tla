----------------------------- MODULE TtxMatch -----------------------------
(* What "the page contains the search pattern" means for vbi_search_new / vbi_search_next (C17):
   a small regular expression language over the characters of a displayed row, written from the
   documentation of vbi_search_new (ure syntax: literal, ".", "[...]" classes, "*", "+", "?", "|",
   grouping, "^" and "$" anchors at row boundaries; casefold), as a recursive matcher that TLC
   evaluates.  This is the independent matcher of the check: a page is a hit iff some row 1..23
   has an occurrence, wherever it starts - in particular behind a false start such as "ZZQX" for
   the pattern "ZQX".

   Pattern AST (records):
     [k |-> "chr", c |-> code]          one character
     [k |-> "any"]                      any character
     [k |-> "cls", s |-> set of codes]  character class     [k |-> "ncls", s |-> ...] negated class
     [k |-> "cat", a |-> <<p1, ..., pn>>]
     [k |-> "alt", a |-> <<p1, ..., pn>>]
     [k |-> "star", p |-> p1]  [k |-> "plus", p |-> p1]  [k |-> "opt", p |-> p1]
     [k |-> "bol"]  [k |-> "eol"]
   A row is a sequence of character codes (40 columns).                                       *)
EXTENDS Naturals, Sequences, FiniteSets

Lower(c) == IF c >= 65 /\ c <= 90 THEN c + 32 ELSE c
Fold(cf, c) == IF cf THEN Lower(c) ELSE c

(* Ends(p, s, i, cf): the set of positions j (i <= j <= Len(s) + 1) such that p matches s[i .. j-1] *)
RECURSIVE Ends(_, _, _, _), CatEnds(_, _, _, _, _), StarEnds(_, _, _, _, _)
Ends(p, s, i, cf) ==
  CASE p.k = "chr"  -> IF i <= Len(s) /\ Fold(cf, s[i]) = Fold(cf, p.c) THEN {i + 1} ELSE {}
    [] p.k = "any"  -> IF i <= Len(s) THEN {i + 1} ELSE {}
    [] p.k = "cls"  -> IF i <= Len(s) /\ (\E c \in p.s : Fold(cf, c) = Fold(cf, s[i])) THEN {i + 1} ELSE {}
    [] p.k = "ncls" -> IF i <= Len(s) /\ ~(\E c \in p.s : Fold(cf, c) = Fold(cf, s[i])) THEN {i + 1} ELSE {}
    [] p.k = "bol"  -> IF i = 1 THEN {i} ELSE {}
    [] p.k = "eol"  -> IF i = Len(s) + 1 THEN {i} ELSE {}
    [] p.k = "cat"  -> CatEnds(p.a, 1, s, {i}, cf)
    [] p.k = "alt"  -> UNION {Ends(p.a[n], s, i, cf) : n \in 1..Len(p.a)}
    [] p.k = "opt"  -> {i} \cup Ends(p.p, s, i, cf)
    [] p.k = "star" -> StarEnds(p.p, s, {i}, {i}, cf)
    [] p.k = "plus" -> StarEnds(p.p, s, UNION {Ends(p.p, s, i, cf)}, UNION {Ends(p.p, s, i, cf)}, cf)
\* positions reachable after a[n..] from the position set `from`
CatEnds(a, n, s, from, cf) ==
  IF n > Len(a) \/ from = {} THEN from
  ELSE CatEnds(a, n + 1, s, UNION {Ends(a[n], s, i, cf) : i \in from}, cf)
\* closure: `acc` = positions reached so far, `new` = those not yet expanded
StarEnds(p, s, acc, new, cf) ==
  LET nx == (UNION {Ends(p, s, i, cf) : i \in new}) \ acc IN
  IF nx = {} THEN acc ELSE StarEnds(p, s, acc \cup nx, nx, cf)

\* occurrences <<start, end>> with a non-empty match, anywhere in the row
Occ(p, s, cf) == UNION {{<<i, j>> : j \in {e \in Ends(p, s, i, cf) : e > i}} : i \in 1..(Len(s) + 1)}
(* The same set, computed without trying the places where no match can begin: CanStart is a
   necessary condition for a non-empty match of p to begin with character c (the characters its
   first consuming leaves accept).  MC_TtxMatchFast checks OccF = Occ on a pattern stratum. *)
RECURSIVE Nullable(_), CanStart(_, _, _), CanStartSeq(_, _, _, _)
Nullable(p) ==
  CASE p.k \in {"chr", "any", "cls", "ncls"} -> FALSE
    [] p.k \in {"bol", "eol", "star", "opt"} -> TRUE
    [] p.k = "cat"  -> \A n \in 1..Len(p.a) : Nullable(p.a[n])
    [] p.k = "alt"  -> \E n \in 1..Len(p.a) : Nullable(p.a[n])
    [] p.k = "plus" -> Nullable(p.p)
CanStart(p, c, cf) ==
  CASE p.k = "chr"  -> Fold(cf, c) = Fold(cf, p.c)
    [] p.k = "any"  -> TRUE
    [] p.k = "cls"  -> \E d \in p.s : Fold(cf, d) = Fold(cf, c)
    [] p.k = "ncls" -> ~(\E d \in p.s : Fold(cf, d) = Fold(cf, c))
    [] p.k \in {"bol", "eol"} -> FALSE
    [] p.k = "cat"  -> CanStartSeq(p.a, 1, c, cf)
    [] p.k = "alt"  -> \E n \in 1..Len(p.a) : CanStart(p.a[n], c, cf)
    [] OTHER -> CanStart(p.p, c, cf)
CanStartSeq(a, n, c, cf) ==
  IF n > Len(a) THEN FALSE
  ELSE CanStart(a[n], c, cf) \/ (Nullable(a[n]) /\ CanStartSeq(a, n + 1, c, cf))
OccF(p, s, cf) ==
  LET ok == {c \in {s[i] : i \in 1..Len(s)} : CanStart(p, c, cf)}
  IN UNION {{<<i, j>> : j \in {e \in Ends(p, s, i, cf) : e > i}} : i \in {x \in 1..Len(s) : s[x] \in ok}}
Found(p, s, cf) == \E i \in 1..(Len(s) + 1) : \E j \in Ends(p, s, i, cf) : j > i

\* literal pattern = concatenation of its characters
Lit(str) == [k |-> "cat", a |-> [n \in 1..Len(str) |-> [k |-> "chr", c |-> str[n]]]]
=============================================================================
