CONSTANTS Pgnos = {256, 257} Subnos = {0, 1, 2} Sizes = {2, 3} Fns = {"lop"} NSlots = 2 NNSlots = 2
  MaxOps = 4 MaxPuts = 3 Limits = {4, 100} NetLimit = 1 Policy = "any" SkipCollected = TRUE ExactFirst = TRUE
  GetMasks = {15, 255, 65535} ClockVals = {TRUE, FALSE} MaxNets = 4
SPECIFICATION Spec
CONSTRAINT Bounded
INVARIANTS TypeOK RefsAreHandles HeldAlive ListsOK WithinLimit NetsOK StatOK NoDupVictim UniqueKey
CHECK_DEADLOCK FALSE
