-------------------------- MODULE MC_TtxAssembly --------------------------
EXTENDS TtxAssembly
\* page descriptors <<page number, subpage numbers it is transmitted with>>
PagesA == {<<256, {0}>>, <<257, {1, 2}>>, <<512, {0}>>}
PagesB == {<<256, {0}>>, <<257, {1, 2}>>, <<399, {0}>>, <<512, {0}>>, <<2201, {1, 2}>>}
=============================================================================
