CONSTANTS Mags = {1} Pages <- PagesM1 Rows = {1} Cids = {1} Nats = {0} Flofs = {1, 2} Progs <- NoProgs
          HdrFaults <- HdrAll RowFaults = {} PktFaults <- PktAll TripFaults = {} FlofFaults <- FlofAll MaxFaults = 2 MaxPk = 6
SPECIFICATION Spec
VIEW mcview
CONSTRAINT Bounded
INVARIANTS OneVersion RollingOne OnlyTransmitted LinksContained
PROPERTIES KeepsRows AddressFaultNothing HeaderFaultOnlyAbandons DamagedLinkKept
CHECK_DEADLOCK FALSE
