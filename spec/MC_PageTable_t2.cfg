CONSTANTS MinPg = 256 MaxPg = 271 MaxSub = 3
  PagePts <- PtsQ SubPts <- SubsAll BadPages <- BadPgQ BadSubs <- BadSubQ
SPECIFICATION Spec
INVARIANTS TypeOK RepInv SetAlgebra AddThenContains RemoveThenNot Idempotent SwappedRange WholePages QueriesAgree NextIsLeastAbove IterationExact CutSplits
CHECK_DEADLOCK FALSE
