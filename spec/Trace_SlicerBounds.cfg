CONSTANT Cfgs <- TraceCfgs
SPECIFICATION TSpec
INVARIANTS TTypeOK ChannelOk WriteBound LineBound InnerBound
POSTCONDITION TraceAccepted
CHECK_DEADLOCK FALSE
