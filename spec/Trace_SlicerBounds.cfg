CONSTANT Cfgs <- TraceCfgs
SPECIFICATION TSpec
INVARIANTS TTypeOK ChannelOk WriteBound RefusedIdle LineBound InnerBound
POSTCONDITION TraceAccepted
CHECK_DEADLOCK FALSE
