CONSTANTS Scanning = 625 Use <- UsePal Geoms <- GeomsPalQ AddSets <- AddPalWhole RateCfgs <- Rate1 Apis = {"new"}
  Stricts = {0} Ways = 8 MaxJobs = 8 MaxCalls = 9 MaxDecodes = 9 MaxCarried = 2 MaxDepth = 6 ShortOut = FALSE Fixed = FALSE
SPECIFICATION Spec
VIEW core
CONSTRAINT DepthBound
INVARIANTS TypeOK NoRunOff
PROPERTIES ACompleteP
CHECK_DEADLOCK FALSE
