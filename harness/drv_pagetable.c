/* Executor for PageTable behaviours (X01): calls the vbi_page_table API and prints, after EVERY call, what is observable
 * of the table: num_pages, a sweep of contains_page / contains_all_subpages over all page numbers (and invalid neighbours),
 * the complete next_page and next_subpage iterations (run-length coded) and contains_subpage for a list of probes.
 * No expectation and no model of the table lives here.
 * stdin (numbers in any C base, may be negative):
 *   R                       new table                         -> {"reset":1}
 *   P pg.. | sub..          probe pages | probe subpages      -> {"probes":n}
 *   add_all_pages | add_all_displayable_pages | remove_all_pages
 *   add_pages f l | remove_pages f l | add_page p | remove_page p
 *   add_subpages p f l | remove_subpages p f l | add_subpage p s | remove_subpage p s
 *   contains_page p | contains_subpage p s | contains_all_subpages p | num_pages | next_page p | next_subpage p s
 * every call prints {"ret":..,"pg":..,"sub":..,"num":..,"cp":..,"ca":..,"np":..,"ns":..,"probe":..}
 */
#include <stdio.h>
#include <stdlib.h>
#include <string.h>
#include "config.h"
#include "src/misc.h"
#include "src/page_table.h"

static vbi_page_table *pt;
static int probe_pg[64], n_probe_pg;
static int probe_sub[64], n_probe_sub;

#define SWEEP_LO 0xF0
#define SWEEP_HI 0x910

static void sweep(const char *name, int which)
{
	int p, start = -1, first = 1;
	printf(",\"%s\":[", name);
	for (p = SWEEP_LO; p <= SWEEP_HI + 1; p++) {
		int in = 0;
		if (p <= SWEEP_HI)
			in = which ? vbi_page_table_contains_all_subpages(pt, p) : vbi_page_table_contains_page(pt, p);
		if (in && start < 0) start = p;
		if (!in && start >= 0) {
			printf("%s[%d,%d]", first ? "" : ",", start, p - 1);
			first = 0; start = -1;
		}
	}
	printf("]");
}

static void iterate_pages(void)
{
	vbi_pgno pgno = 0;
	int n = 0, lo = -1, hi = -1, first = 1;
	printf(",\"np\":[");
	while (n < 5000 && vbi_page_table_next_page(pt, &pgno)) {
		n++;
		if (lo >= 0 && pgno == hi + 1) { hi = pgno; continue; }
		if (lo >= 0) { printf("%s[%d,%d]", first ? "" : ",", lo, hi); first = 0; }
		lo = hi = pgno;
	}
	if (lo >= 0) printf("%s[%d,%d]", first ? "" : ",", lo, hi);
	printf("],\"npn\":%d", n);
}

static void iterate_subpages(void)
{
	vbi_pgno pgno = 0;
	vbi_subno subno = VBI_ANY_SUBNO;
	long n = 0;
	int first = 1;
	/* current run: pages plo..phi as whole pages (any = 1) or subpages slo..shi of page plo */
	int have = 0, any = 0, plo = 0, phi = 0, slo = 0, shi = 0;
	printf(",\"ns\":[");
	while (n < 400000 && vbi_page_table_next_subpage(pt, &pgno, &subno)) {
		n++;
		if (have && any && VBI_ANY_SUBNO == subno && pgno == phi + 1) { phi = pgno; continue; }
		if (have && !any && VBI_ANY_SUBNO != subno && pgno == plo && subno == shi + 1) { shi = subno; continue; }
		if (have) {
			if (any) printf("%s[%d,%d]", first ? "" : ",", plo, phi);
			else printf("%s[%d,%d,%d]", first ? "" : ",", plo, slo, shi);
			first = 0;
		}
		have = 1; any = (VBI_ANY_SUBNO == subno);
		plo = phi = pgno; slo = shi = subno;
	}
	if (have) {
		if (any) printf("%s[%d,%d]", first ? "" : ",", plo, phi);
		else printf("%s[%d,%d,%d]", first ? "" : ",", plo, slo, shi);
	}
	printf("],\"nsn\":%ld", n);
}

static void probes(void)
{
	int i, j;
	printf(",\"probe\":{");
	for (i = 0; i < n_probe_pg; i++) {
		printf("%s\"%d\":\"", i ? "," : "", probe_pg[i]);
		for (j = 0; j < n_probe_sub; j++)
			putchar(vbi_page_table_contains_subpage(pt, probe_pg[i], probe_sub[j]) ? '1' : '0');
		putchar('"');
	}
	printf("}");
}

static void state(long ret, long pg, long sub)
{
	printf("{\"ret\":%ld,\"pg\":%ld,\"sub\":%ld,\"num\":%u", ret, pg, sub, vbi_page_table_num_pages(pt));
	sweep("cp", 0);
	sweep("ca", 1);
	iterate_pages();
	iterate_subpages();
	probes();
	printf("}\n");
	fflush(stdout);
}

int main(void)
{
	static char line[4096];
	setvbuf(stdout, NULL, _IOFBF, 1 << 16);
	while (fgets(line, sizeof line, stdin)) {
		char cmd[64];
		long a[3] = { 0, 0, 0 };
		int n = 0, k;
		char *s = line, *e;
		if (line[0] == 'R') {
			vbi_page_table_delete(pt);
			pt = vbi_page_table_new();
			if (!pt) return 3;
			printf("{\"reset\":1}\n"); fflush(stdout);
			continue;
		}
		if (line[0] == 'P') {
			int *dst = probe_pg, *cnt = &n_probe_pg;
			n_probe_pg = n_probe_sub = 0;
			s = line + 1;
			for (;;) {
				long v;
				while (*s == ' ') s++;
				if (*s == '|') { dst = probe_sub; cnt = &n_probe_sub; s++; continue; }
				v = strtol(s, &e, 0);
				if (e == s) break;
				if (*cnt < 64) dst[(*cnt)++] = (int) v;
				s = e;
			}
			printf("{\"probes\":%d}\n", n_probe_pg * n_probe_sub); fflush(stdout);
			continue;
		}
		if (sscanf(line, "%63s%n", cmd, &k) != 1) continue;
		s = line + k;
		while (n < 3) {
			long v = strtol(s, &e, 0);
			if (e == s) break;
			a[n++] = v; s = e;
		}
		if (!pt) return 4;
		if (!strcmp(cmd, "add_all_pages")) { vbi_page_table_add_all_pages(pt); state(1, 0, 0); }
		else if (!strcmp(cmd, "add_all_displayable_pages")) { vbi_page_table_add_all_displayable_pages(pt); state(1, 0, 0); }
		else if (!strcmp(cmd, "remove_all_pages")) { vbi_page_table_remove_all_pages(pt); state(1, 0, 0); }
		else if (!strcmp(cmd, "add_pages")) state(vbi_page_table_add_pages(pt, a[0], a[1]), 0, 0);
		else if (!strcmp(cmd, "remove_pages")) state(vbi_page_table_remove_pages(pt, a[0], a[1]), 0, 0);
		else if (!strcmp(cmd, "add_page")) state(vbi_page_table_add_page(pt, a[0]), 0, 0);
		else if (!strcmp(cmd, "remove_page")) state(vbi_page_table_remove_page(pt, a[0]), 0, 0);
		else if (!strcmp(cmd, "add_subpages")) state(vbi_page_table_add_subpages(pt, a[0], a[1], a[2]), 0, 0);
		else if (!strcmp(cmd, "remove_subpages")) state(vbi_page_table_remove_subpages(pt, a[0], a[1], a[2]), 0, 0);
		else if (!strcmp(cmd, "add_subpage")) state(vbi_page_table_add_subpage(pt, a[0], a[1]), 0, 0);
		else if (!strcmp(cmd, "remove_subpage")) state(vbi_page_table_remove_subpage(pt, a[0], a[1]), 0, 0);
		else if (!strcmp(cmd, "contains_page")) state(vbi_page_table_contains_page(pt, a[0]), 0, 0);
		else if (!strcmp(cmd, "contains_subpage")) state(vbi_page_table_contains_subpage(pt, a[0], a[1]), 0, 0);
		else if (!strcmp(cmd, "contains_all_subpages")) state(vbi_page_table_contains_all_subpages(pt, a[0]), 0, 0);
		else if (!strcmp(cmd, "num_pages")) state(vbi_page_table_num_pages(pt), 0, 0);
		else if (!strcmp(cmd, "next_page")) {
			vbi_pgno pgno = a[0];
			vbi_bool r = vbi_page_table_next_page(pt, &pgno);
			state(r, pgno, 0);
		} else if (!strcmp(cmd, "next_subpage")) {
			vbi_pgno pgno = a[0];
			vbi_subno subno = a[1];
			vbi_bool r = vbi_page_table_next_subpage(pt, &pgno, &subno);
			state(r, pgno, subno);
		} else
			printf("{\"error\":\"unknown command\"}\n");
	}
	vbi_page_table_delete(pt);
	return 0;
}
