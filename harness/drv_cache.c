/* Executor + recorder for TtxCache (C10): performs cache operations on a real vbi_cache through
 * the internal API (cache-priv.h) and prints, after every operation, the full projection of the
 * cache: every page object with key, size, priority, reference count and list membership, the
 * hash chains in order, the priority / referenced lists, all counters, the networks and the
 * per-page statistics.  No expectation lives here - TLC validates the log against TtxCache.tla.
 *
 * stdin:  R <limit> <netlimit>       fresh cache (the previous one is released first: "D")
 *         A t | N t                  add anonymous network into network slot t | unref slot t
 *         P t pgno subno fn cls s    put page (fn 0 unknown,1 lop,3 pop; cls 0 lop,1 enh,2 ext) -> slot s
 *         G t pgno subno mask s      get page -> slot s
 *         F s s2 | U s               ref the page of slot s into s2 | unref slot s
 *         C t pgno c                 page type := clock page (c=1) / normal (c=0)
 *         D                          release every handle and delete the cache
 */
#include <stdio.h>
#include <stdlib.h>
#include <string.h>
#include "config.h"
#include "src/misc.h"
#include "src/cache-priv.h"
#include "src/vbi.h"
#ifndef VBI_CLOCK_PAGE
#  define VBI_CLOCK_PAGE VBI_NONSTD_SUBPAGES   /* as in cache.c for libzvbi 0.2 */
#endif

#define NS 8
#define SKIP printf("{\"skip\":true}\n"); break
static vbi_cache *ca;
static cache_page *slot[NS + 1];
static cache_network *nslot[NS + 1];
static int next_id, next_net;
static int used_pgno[64], n_used;

static unsigned prng(unsigned *s) { *s = *s * 1664525u + 1013904223u; return *s >> 24; }

static void fill(cache_page *cp, int id, unsigned size)
{
	unsigned hdr = sizeof(*cp) - sizeof(cp->data), n = size - hdr, i, s = id * 2654435761u;
	uint8_t *d = (uint8_t *) &cp->data;
	for (i = 0; i < n; i++) d[i] = prng(&s);
	memcpy(d, &id, 4);
}

static int stamp(const cache_page *cp) { int id; memcpy(&id, &cp->data, 4); return id; }

static int content_ok(const cache_page *cp)
{
	unsigned size = cache_page_size(cp), hdr = sizeof(*cp) - sizeof(cp->data), n = size - hdr, i;
	int id = stamp(cp);
	unsigned s = id * 2654435761u;
	const uint8_t *d = (const uint8_t *) &cp->data;
	for (i = 0; i < n; i++) {
		unsigned b = prng(&s);
		if (i >= 4 && d[i] != b) return 0;
	}
	return 1;
}

static int netid(const cache_network *cn) { return cn ? (int) cn->confirm_cni_vps : 0; }

static void note_pgno(int pgno)
{
	int i;
	if (pgno < 0x100 || pgno > 0x8FF) return;
	for (i = 0; i < n_used; i++) if (used_pgno[i] == pgno) return;
	if (n_used < 64) used_pgno[n_used++] = pgno;
}

static void dump_page(const cache_page *cp, int first)
{
	printf("%s{\"id\":%d,\"net\":%d,\"pgno\":%d,\"subno\":%d,\"size\":%u,\"prio\":%d,\"ref\":%u,\"z\":%s}",
	       first ? "" : ",", stamp(cp), netid(cp->network), cp->pgno, cp->subno,
	       cache_page_size(cp) , cp->priority == CACHE_PRI_ZOMBIE ? 0 : (int) cp->priority,
	       cp->ref_count, cp->priority == CACHE_PRI_ZOMBIE ? "true" : "false");
}

static void dump(const char *op, long res)
{
	cache_page *cp, *cp1;
	cache_network *cn, *cn1;
	unsigned i;
	int first, ok = 1, k;

	printf("{\"res\":%ld", res);
	if (!ca) { printf(",\"deleted\":true}\n"); return; }
	/* every page is on exactly one of the two lists */
	printf(",\"pages\":[");
	first = 1;
	FOR_ALL_NODES (cp, cp1, &ca->priority, pri_node) { dump_page(cp, first); first = 0; }
	FOR_ALL_NODES (cp, cp1, &ca->referenced, pri_node) { dump_page(cp, first); first = 0; }
	printf("],\"plist\":[");
	first = 1;
	FOR_ALL_NODES (cp, cp1, &ca->priority, pri_node) { printf("%s%d", first ? "" : ",", stamp(cp)); first = 0; }
	printf("],\"rlist\":[");
	first = 1;
	FOR_ALL_NODES (cp, cp1, &ca->referenced, pri_node) { printf("%s%d", first ? "" : ",", stamp(cp)); first = 0; }
	printf("],\"chains\":[");
	first = 1;
	for (i = 0; i < HASH_SIZE; i++) {
		int f2 = 1;
		if (ca->hash[i]._succ == &ca->hash[i]) continue;
		printf("%s[", first ? "" : ","); first = 0;
		FOR_ALL_NODES (cp, cp1, &ca->hash[i], hash_node) { printf("%s%d", f2 ? "" : ",", stamp(cp)); f2 = 0; }
		printf("]");
	}
	printf("],\"ctr\":{\"ncp\":%u,\"mem\":%lu,\"limit\":%lu,\"ncn\":%u}", ca->n_cached_pages,
	       ca->memory_used , ca->memory_limit , ca->n_cached_networks);
	printf(",\"nets\":[");
	first = 1;
	FOR_ALL_NODES (cn, cn1, &ca->networks, node) {
		printf("%s{\"n\":%d,\"ref\":%u,\"z\":%s,\"ncp\":%u,\"nrp\":%u}", first ? "" : ",", netid(cn),
		       cn->ref_count, cn->zombie ? "true" : "false", cn->n_cached_pages, cn->n_referenced_pages);
		first = 0;
	}
	printf("],\"stat\":[");
	first = 1;
	FOR_ALL_NODES (cn, cn1, &ca->networks, node)
		for (k = 0; k < n_used; k++) {
			const struct ttx_page_stat *ps = cache_network_const_page_stat(cn, used_pgno[k]);
			printf("%s[%d,%d,%u,%u,%u,%u,%s]", first ? "" : ",", netid(cn), used_pgno[k], ps->n_subpages,
			       ps->max_subpages, ps->subno_min, ps->subno_max, ps->page_type == VBI_CLOCK_PAGE ? "true" : "false");
			first = 0;
		}
	printf("],\"slot\":[");
	for (k = 1; k <= NS; k++) {
		printf("%s%d", k > 1 ? "," : "", slot[k] ? stamp(slot[k]) : 0);
		if (slot[k] && !content_ok(slot[k])) ok = 0;
	}
	printf("],\"nslot\":[");
	for (k = 1; k <= NS; k++) printf("%s%d", k > 1 ? "," : "", netid(nslot[k]));
	printf("],\"held_ok\":%s}\n", ok ? "true" : "false");
	(void) op;
}

static void teardown(void)
{
	int k;
	if (!ca) return;
	for (k = 1; k <= NS; k++) { if (slot[k]) cache_page_unref(slot[k]); slot[k] = NULL; }
	for (k = 1; k <= NS; k++) { if (nslot[k]) cache_network_unref(nslot[k]); nslot[k] = NULL; }
	vbi_cache_delete(ca);
	ca = NULL;
}

int main(void)
{
	char line[256];
	static cache_page tmpl;	/* template page, large enough for every function */

	setvbuf(stdout, NULL, _IOFBF, 1 << 16);
	while (fgets(line, sizeof line, stdin)) {
		int a, b, c, d, e, f;
		switch (line[0]) {
		case 'R':
			teardown();
			sscanf(line + 1, "%d %d", &a, &b);
			ca = vbi_cache_new();
			ca->memory_limit = (unsigned long) a;
			ca->n_networks_limit = b;
			next_id = 1; next_net = 1; n_used = 0;
			printf("{\"reset\":1,\"unit_lop\":%u,\"unit_enh\":%u,\"unit_ext\":%u,\"unit_pop\":%u}\n",
			       (unsigned) (sizeof(tmpl) - sizeof(tmpl.data) + sizeof(tmpl.data.lop)) ,
			       (unsigned) (sizeof(tmpl) - sizeof(tmpl.data) + sizeof(tmpl.data.enh_lop)) ,
			       (unsigned) (sizeof(tmpl) - sizeof(tmpl.data) + sizeof(tmpl.data.ext_lop)) ,
			       (unsigned) (sizeof(tmpl) - sizeof(tmpl.data) + sizeof(tmpl.data.pop)) );
			break;
		case 'A':
			sscanf(line + 1, "%d", &a);
			if (nslot[a]) { SKIP; }
			nslot[a] = _vbi_cache_add_network(ca, NULL, VBI_VIDEOSTD_SET_625_50);
			if (nslot[a] && 0 == nslot[a]->confirm_cni_vps) {
				unsigned i;
				nslot[a]->confirm_cni_vps = next_net++;
				/* libzvbi 0.2: the caller resets the page statistics of a new (possibly
				   recycled) network, as vbi_teletext_channel_switched() does */
				for (i = 0; i < N_ELEMENTS(nslot[a]->_pages); i++) {
					memset(&nslot[a]->_pages[i], 0, sizeof nslot[a]->_pages[i]);
					nslot[a]->_pages[i].page_type = VBI_UNKNOWN_PAGE;
				}
			}
			dump("A", netid(nslot[a]));
			break;
		case 'N':
			sscanf(line + 1, "%d", &a);
			if (!nslot[a]) { SKIP; }
			cache_network_unref(nslot[a]);
			nslot[a] = NULL;
			dump("N", 0);
			break;
		case 'P': {
			cache_page *r;
			sscanf(line + 1, "%d %d %d %d %d %d", &a, &b, &c, &d, &e, &f);
			if (!nslot[a] || slot[f]) { SKIP; }
			memset(&tmpl, 0, sizeof tmpl);
			tmpl.function = d == 0 ? PAGE_FUNCTION_UNKNOWN : d == 1 ? PAGE_FUNCTION_LOP : PAGE_FUNCTION_POP;
			tmpl.pgno = b; tmpl.subno = c;
			tmpl.national = 3; tmpl.flags = 0x1234;
			tmpl.x26_designations = (e == 1); tmpl.x28_designations = (e == 2);
			fill(&tmpl, next_id, cache_page_size(&tmpl));
			note_pgno(b);
			r = _vbi_cache_put_page(ca, nslot[a], &tmpl);
			if (r) next_id++;
			slot[f] = r;
			dump("P", r ? stamp(r) : 0);
			break;
		}
		case 'G': {
			cache_page *r;
			sscanf(line + 1, "%d %d %d %d %d", &a, &b, &c, &d, &e);
			if (!nslot[a] || slot[e]) { SKIP; }
			r = _vbi_cache_get_page(ca, nslot[a], b, c, d);
			slot[e] = r;
			dump("G", r ? stamp(r) : 0);
			break;
		}
		case 'F':
			sscanf(line + 1, "%d %d", &a, &b);
			if (!slot[a] || slot[b]) { SKIP; }
			slot[b] = cache_page_ref(slot[a]);
			dump("F", stamp(slot[b]));
			break;
		case 'U':
			sscanf(line + 1, "%d", &a);
			if (!slot[a]) { SKIP; }
			cache_page_unref(slot[a]);
			slot[a] = NULL;
			dump("U", 0);
			break;
		case 'C':
			sscanf(line + 1, "%d %d %d", &a, &b, &c);
			if (!nslot[a]) { SKIP; }
			note_pgno(b);
			cache_network_page_stat(nslot[a], b)->page_type = c ? VBI_CLOCK_PAGE : VBI_NORMAL_PAGE;
			dump("C", 0);
			break;
		case 'D':
			teardown();
			dump("D", 0);
			break;
		}
	}
	teardown();
	return 0;
}
