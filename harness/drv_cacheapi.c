/* Executor for TtxCacheApi behaviours (C10, application route): pages are transmitted through vbi_decode(),
 * the station is changed, and the cache is observed with vbi_is_cached(), vbi_cache_hi_subno() and
 * vbi_fetch_vt_page().  No expectation lives here.
 * stdin:  R                      new decoder (prints {"reset":1})
 *         V p1 p2 ...            page numbers (hex) observed after every command
 *         S pgno sub stamp       transmit page pgno (hex) / sub (hex) whose row 1 reads "V<stamp>", terminated
 *         W api|gap              vbi_channel_switched() + one frame | time stamps jump, 42 regular frames follow
 *         L c|f pgno sub         exact look-up: vbi_is_cached / vbi_fetch_vt_page (sub 3f7f = VBI_ANY_SUBNO)
 * stdout: one line per S/W/L: {"res":<-1 | 0 | 1 | stamp>, "pg":<page the fetch returned>, "sub":<its subno>,
 *         "obs":[[pgno, any, hi], ...]}   any = vbi_is_cached(pgno, ANY), hi = vbi_cache_hi_subno(pgno)
 */
#include <stdio.h>
#include <stdlib.h>
#include <string.h>
#include "config.h"
#include "src/vbi.h"
#include "ttx_tx.h"

static vbi_decoder *vbi;
static ttx_tx tx;
static int univ[16], n_univ;

static void handler(vbi_event *ev, void *ud) { (void) ev; (void) ud; }

static void empty_frame(void)
{
	vbi_sliced s;
	memset(&s, 0, sizeof s);
	vbi_decode(vbi, &s, 0, tx.t);
	tx.t += 0.04;
}

static void report(int res, int pg, int sub)
{
	int i;
	printf("{\"res\":%d,\"pg\":%d,\"sub\":%d,\"obs\":[", res, pg, sub);
	for (i = 0; i < n_univ; i++)
		printf("%s[%d,%d,%d]", i ? "," : "", univ[i], !!vbi_is_cached(vbi, univ[i], VBI_ANY_SUBNO),
		       vbi_cache_hi_subno(vbi, univ[i]));
	printf("]}\n");
}

int main(void)
{
	char line[256], w[16];
	setvbuf(stdout, NULL, _IOFBF, 1 << 16);
	while (fgets(line, sizeof line, stdin)) {
		int a, b, c;
		switch (line[0]) {
		case 'R':
			if (vbi) vbi_decoder_delete(vbi);
			vbi = vbi_decoder_new();
			vbi_event_handler_register(vbi, VBI_EVENT_TTX_PAGE, handler, NULL);
			ttx_tx_init(&tx, vbi);
			printf("{\"reset\":1}\n");
			break;
		case 'V': {
			char *p = line + 1, *e;
			n_univ = 0;
			for (;;) {
				long v = strtol(p, &e, 16);
				if (e == p || n_univ >= 16) break;
				univ[n_univ++] = (int) v; p = e;
			}
			break;
		}
		case 'S': {
			char text[41];
			int mag;
			sscanf(line + 1, "%x %x %d", &a, &b, &c);
			mag = (a >> 8) & 7; if (!mag) mag = 8;
			snprintf(text, sizeof text, "V%06d", c);
			ttx_send_header(&tx, a, b, TX_C4_ERASE, 0);
			ttx_send_text_row(&tx, mag, 1, text);
			ttx_send_filler(&tx, mag);
			report(-1, 0, 0);
			break;
		}
		case 'W': {
			int i;
			sscanf(line + 1, "%15s", w);
			if (w[0] == 'a') {
				vbi_channel_switched(vbi, 0);
				empty_frame();
			} else {
				tx.t += 7.0;
				for (i = 0; i < 42; i++) empty_frame();
			}
			report(-1, 0, 0);
			break;
		}
		case 'L':
			sscanf(line + 1, "%15s %x %x", w, &a, &b);
			if (w[0] == 'c')
				report(!!vbi_is_cached(vbi, a, b), 0, 0);
			else {
				vbi_page pg;
				int i, stamp = 0, ok;
				memset(&pg, 0, sizeof pg);
				ok = vbi_fetch_vt_page(vbi, &pg, a, b, VBI_WST_LEVEL_1, 25, FALSE);
				if (ok) {
					/* row 1: "V<stamp>" */
					if (pg.text[pg.columns + 0].unicode == 'V')
						for (i = 1; i < 7; i++)
							stamp = stamp * 10 + (pg.text[pg.columns + i].unicode - '0');
					else
						stamp = -2;
					report(stamp, pg.pgno, pg.subno);
					vbi_unref_page(&pg);
				} else
					report(0, 0, 0);
			}
			break;
		}
	}
	if (vbi) vbi_decoder_delete(vbi);
	return 0;
}
