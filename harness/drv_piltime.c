/* Recorder for PilTime (C14): calls vbi_pil_lto_to_time, vbi_pil_to_time, vbi_pty_validity_window,
 * vbi_pil_lto_validity_window and vbi_pil_validity_window and prints what is observable: the
 * result, errno, the TZ variable and the C library's time zone state before and after the call
 * and - for the functions taking a zone name - what the C library's localtime_r reports in that
 * zone for the reference and around the returned instants (the zone database is trusted; the
 * specification states the postcondition over these views).  No expectation and no calendar
 * arithmetic lives here; instants are only re-coded: time_t <-> [era of 146097 days, day, second].
 *
 * stdin:  R                          reset (TZ unset)                      -> {"reset":1}
 *         Z U | Z S<text>            unset TZ | set TZ to <text>           -> {"a":"SetTZ","v":..}
 *         A era day sec              announce the reference time           -> {"a":"Announce","ref":[e,d,s]}
 *         C fn mmask dmask hmask nmask arg
 *                                    call fn for every label whose month/day/hour/minute bit is set
 *                                    in the hex masks; arg = seconds east (lto_to_time, lto_win) or
 *                                    N (NULL) / S<text> (to_time, win, pty_win; pty_win ignores the masks)
 *                                                                          -> one {"a":"Call",...} per call
 */
#define _GNU_SOURCE 1
#include <stdio.h>
#include <stdlib.h>
#include <string.h>
#include <errno.h>
#include <time.h>
#include <stdint.h>
#include "config.h"
#include "src/pdc.h"
#undef sprintf		/* the internal headers poison it; all buffers below are sized for their content */

#define CYCLE 146097LL
#define DAY 86400LL

static time_t ref;
static int have_ref;

static time_t tmin(void) { return (time_t) ((uint64_t) 1 << (sizeof(time_t) * 8 - 1)); }
static time_t tmax(void) { return (time_t) (((uint64_t) 1 << (sizeof(time_t) * 8 - 1)) - 1); }

static __int128 fdiv(__int128 a, __int128 b) { __int128 q = a / b; if ((a % b != 0) && ((a < 0) != (b < 0))) --q; return q; }

static void triple(char *out, time_t t)
{
	__int128 days = fdiv((__int128) t, DAY);
	__int128 s = (__int128) t - days * DAY;
	__int128 e = fdiv(days, CYCLE);
	__int128 d = days - e * CYCLE;
	sprintf(out, "[%lld,%lld,%lld]", (long long) e, (long long) d, (long long) s);
}

static int from_triple(time_t *t, long long e, long long d, long long s)
{
	__int128 v = ((__int128) e * CYCLE + d) * DAY + s;
	if (v < (__int128) tmin() || v > (__int128) tmax()) return 0;
	*t = (time_t) v;
	return 1;
}

static void jstr(char *out, const char *s)
{
	*out++ = '"';
	for (; s && *s; ++s) {
		unsigned char c = (unsigned char) *s;
		if (c == '"' || c == '\\') { *out++ = '\\'; *out++ = c; }
		else if (c < 0x20 || c >= 0x7f) out += sprintf(out, "\\u%04x", c);
		else *out++ = c;
	}
	*out++ = '"'; *out = 0;
}

/* TZ variable: "U" unset, "S<text>" set */
static void env_state(char *out)
{
	const char *s = getenv("TZ");
	char buf[300];
	if (!s) { strcpy(out, "\"U\""); return; }
	snprintf(buf, sizeof(buf), "S%s", s);
	jstr(out, buf);
}

/* time zone state of the C library as a program sees it, without calling tzset(): what localtime_r
 * (which does not re-read TZ) reports for two fixed instants in the zone that is loaded, then tzname,
 * timezone and daylight (conversions update them, so they are read after the fixed instants). */
static void zone_state(char *out)
{
	static const time_t probe[2] = { 978307200, 993945600 };	/* 2001-01-01, 2001-07-01 */
	char buf[400];
	int n = 0, i;
	for (i = 0; i < 2; ++i) {
		struct tm tm;
		memset(&tm, 0, sizeof(tm));
		if (localtime_r(&probe[i], &tm))
			n += snprintf(buf + n, sizeof(buf) - n, "%ld/%d/%s|", (long) tm.tm_gmtoff, tm.tm_isdst, tm.tm_zone ? tm.tm_zone : "?");
		else
			n += snprintf(buf + n, sizeof(buf) - n, "-|");
	}
	snprintf(buf + n, sizeof(buf) - n, "%s|%s|%ld|%d", tzname[0] ? tzname[0] : "?", tzname[1] ? tzname[1] : "?", (long) timezone, daylight);
	jstr(out, buf);
}

/* local view of an instant in the zone currently in force: [y,m,d,hh,mi,ss,seconds east] */
static int view(char *out, time_t t)
{
	struct tm tm;
	memset(&tm, 0, sizeof(tm));
	if (!localtime_r(&t, &tm)) return 0;
	if (tm.tm_year > 2000000000 || tm.tm_year < -2000000000) return 0;	/* keep y + 1900 an int */
	return sprintf(out, "[%d,%d,%d,%d,%d,%d,%ld]", tm.tm_year + 1900, tm.tm_mon + 1, tm.tm_mday, tm.tm_hour, tm.tm_min, tm.tm_sec, (long) tm.tm_gmtoff);
}

static int tab3(char *out, time_t t)
{
	int n = 0, i, k = 0;
	out[n++] = '[';
	if (t > tmin() + 7200 && t < tmax() - 7200)
		for (i = -1; i <= 1; ++i) {
			char v[128];
			if (!view(v, t + i * 3600)) { n = 1; k = 0; break; }
			n += sprintf(out + n, "%s%s", k++ ? "," : "", v);
		}
	out[n++] = ']'; out[n] = 0;
	return n;
}

/* enter the zone the call named (driver's own bookkeeping, after the call has been recorded) */
static char *saved_tz; static int saved_set;
static void enter_zone(const char *zone)
{
	const char *s = getenv("TZ");
	saved_set = (s != NULL);
	saved_tz = s ? strdup(s) : NULL;
	if (zone) { setenv("TZ", zone, 1); tzset(); }
}
static void leave_zone(const char *zone)
{
	if (zone) {
		if (saved_set) setenv("TZ", saved_tz, 1); else unsetenv("TZ");
		tzset();
	}
	free(saved_tz); saved_tz = NULL;
}

static const time_t SENT_B = (time_t) 0x5A5A5A5A5A5ALL, SENT_E = (time_t) -0x3C3C3C3C3C3CLL;

static void bound(char *out, const char *name, time_t v, time_t sentinel)
{
	char t[96];
	if (v == sentinel) sprintf(out, "\"%sk\":\"unch\"", name);
	else if (v == tmin()) sprintf(out, "\"%sk\":\"min\"", name);
	else if (v == tmax()) sprintf(out, "\"%sk\":\"max\"", name);
	else { triple(t, v); sprintf(out, "\"%sk\":\"t\",\"%s\":%s", name, name, t); }
}

static void one_call(const char *fn, unsigned int pil, const char *arg)
{
	char e0[320], e1[320], s0[440], s1[440], res[2048], extra[2048], ja[320];
	int is_lto = (0 == strncmp(fn, "lto_", 4));
	int off = is_lto ? atoi(arg) : 0;
	const char *zone = is_lto ? NULL : (arg[0] == 'N' ? NULL : arg + 1);
	int err, n = 0;
	time_t r = 0, b = SENT_B, e = SENT_E;
	int ok = 0, is_time = 0;

	extra[0] = 0;
	env_state(e0); zone_state(s0);
	errno = 0;
	if (0 == strcmp(fn, "lto_to_time")) { r = vbi_pil_lto_to_time(pil, ref, off); ok = (r != (time_t) -1); is_time = 1; }
	else if (0 == strcmp(fn, "to_time")) { r = vbi_pil_to_time(pil, ref, zone); ok = (r != (time_t) -1); is_time = 1; }
	else if (0 == strcmp(fn, "pty_win")) ok = !!vbi_pty_validity_window(&b, &e, ref, zone);
	else if (0 == strcmp(fn, "lto_win")) ok = !!vbi_pil_lto_validity_window(&b, &e, pil, ref, off);
	else if (0 == strcmp(fn, "win")) ok = !!vbi_pil_validity_window(&b, &e, pil, ref, zone);
	else { printf("{\"error\":\"unknown function\"}\n"); return; }
	err = errno;
	env_state(e1); zone_state(s1);

	if (is_time) {
		if (ok) { char t[96]; triple(t, r); n = sprintf(res, "\"ok\":1,\"t\":%s", t); }
		else n = sprintf(res, "\"ok\":0");
	} else {
		char bb[160], ee[160];
		bound(bb, "b", b, SENT_B); bound(ee, "e", e, SENT_E);
		n = sprintf(res, "\"ok\":%d,%s,%s", ok, bb, ee);
	}
	if (!is_lto) {
		/* what the C library says about the reference and the results in the zone of the call */
		char v[128], t1[512], t2[512];
		int m = 0;
		enter_zone(zone);
		if (view(v, ref)) m += sprintf(extra + m, ",\"loc\":%s", v); else m += sprintf(extra + m, ",\"loc\":[]");
		if (is_time) {
			if (ok) tab3(t1, r); else strcpy(t1, "[]");
			m += sprintf(extra + m, ",\"tab\":%s", t1);
		} else {
			if (ok && b != SENT_B && b != tmin() && b != tmax()) tab3(t1, b); else strcpy(t1, "[]");
			if (ok && e != SENT_E && e != tmin() && e != tmax()) tab3(t2, e); else strcpy(t2, "[]");
			m += sprintf(extra + m, ",\"tabb\":%s,\"tabe\":%s", t1, t2);
		}
		leave_zone(zone);
	}
	if (is_lto) sprintf(ja, "%d", off); else jstr(ja, arg);
	printf("{\"a\":\"Call\",\"fn\":\"%s\",\"pil\":%u,\"arg\":%s,%s,\"errno\":%d,\"e0\":%s,\"e1\":%s,\"s0\":%s,\"s1\":%s%s}\n",
	       fn, pil, ja, res, err, e0, e1, s0, s1, extra);
}

int main(void)
{
	static char line[1024], obuf[1 << 20];
	setvbuf(stdout, obuf, _IOFBF, sizeof(obuf));
	unsetenv("TZ"); tzset();
	while (fgets(line, sizeof(line), stdin)) {
		size_t L = strlen(line);
		while (L && (line[L - 1] == '\n' || line[L - 1] == '\r')) line[--L] = 0;
		if (line[0] == 'R') {
			unsetenv("TZ"); tzset(); have_ref = 0;
			printf("{\"reset\":1}\n");
		} else if (line[0] == 'Z' && line[1] == ' ') {
			char v[400];
			if (line[2] == 'U') unsetenv("TZ"); else setenv("TZ", line + 3, 1);
			tzset();
			env_state(v);
			printf("{\"a\":\"SetTZ\",\"v\":%s}\n", v);
		} else if (line[0] == 'A') {
			long long e, d, s; char t[96];
			if (3 != sscanf(line + 1, "%lld %lld %lld", &e, &d, &s) || !from_triple(&ref, e, d, s)) {
				printf("{\"error\":\"reference not a time_t\"}\n"); have_ref = 0; continue;
			}
			have_ref = 1;
			triple(t, ref);
			printf("{\"a\":\"Announce\",\"ref\":%s}\n", t);
		} else if (line[0] == 'C') {
			char fn[32], arg[400]; unsigned long long mm, dm, hm, nm; int k = 0;
			unsigned int mo, da, hh, mi;
			if (5 != sscanf(line + 1, "%31s %llx %llx %llx %llx %n", fn, &mm, &dm, &hm, &nm, &k) || !have_ref) {
				printf("{\"error\":\"bad call\"}\n"); continue;
			}
			snprintf(arg, sizeof(arg), "%s", line + 1 + k);
			if (0 == strcmp(fn, "pty_win")) { one_call(fn, 0, arg); continue; }
			for (mo = 0; mo < 16; ++mo) if (mm >> mo & 1)
			for (da = 0; da < 32; ++da) if (dm >> da & 1)
			for (hh = 0; hh < 32; ++hh) if (hm >> hh & 1)
			for (mi = 0; mi < 64; ++mi) if (nm >> mi & 1)
				one_call(fn, VBI_PIL(mo, da, hh, mi), arg);
		}
		fflush(stdout);
	}
	return 0;
}
