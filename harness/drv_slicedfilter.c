/* Executor for SlicedFilter behaviours (X01): three vbi_sliced_filter objects receive the same configuration calls
 * and the same frames; A is filtered with vbi_sliced_filter_cor() into a separate output buffer of exactly max lines,
 * B with vbi_sliced_filter_feed() (callback collects the lines), C with vbi_sliced_filter_cor() in place.
 * Prints the return values and the kept lines of each.  Input and output buffers are heap blocks of the exact size
 * (ASan sees every access beyond them).  No expectation and no model of the filter lives here.
 * stdin (numbers in any C base):
 *   R                                        three new filters                        -> {"reset":1}
 *   keep_services m | drop_services m        service set                              -> {"ret":[a,b,c]}
 *   keep_ttx_pages f l | drop_ttx_pages f l | keep_ttx_page p | drop_ttx_page p
 *   keep_ttx_subpages p f l | drop_ttx_subpages p f l | keep_ttx_subpage p s | drop_ttx_subpage p s
 *   keep_ttx_system_pages b | reset
 *   F max id:line:hex ...                    one frame; hex = the 56 data bytes; max = room of A's output buffer
 *       -> {"A":{"ok":,"nin":,"nout":,"out":["id:line:hex",..]},"B":{"ok":,"nin":,"cb":,"out":[..]},"C":{..}}
 */
#include <stdio.h>
#include <stdlib.h>
#include <string.h>
#include "config.h"
#include "src/misc.h"
#include "src/sliced.h"
#include "src/sliced_filter.h"

static vbi_sliced_filter *sf[3];

/* callback of B: collects what it is handed */
static vbi_sliced *cb_lines;
static unsigned int cb_n, cb_calls;

static vbi_bool collect(vbi_sliced_filter *f, const vbi_sliced *sliced, unsigned int n_lines, void *user_data)
{
	(void) f;
	if (user_data != (void *) &cb_calls) return FALSE;
	cb_calls++;
	free(cb_lines);
	cb_lines = malloc(n_lines * sizeof *cb_lines + 1);
	if (n_lines) memcpy(cb_lines, sliced, n_lines * sizeof *cb_lines);
	cb_n = n_lines;
	return TRUE;
}

static void print_lines(const vbi_sliced *s, unsigned int n)
{
	unsigned int i, j;
	printf("[");
	for (i = 0; i < n; i++) {
		printf("%s\"%u:%u:", i ? "," : "", (unsigned) s[i].id, (unsigned) s[i].line);
		for (j = 0; j < sizeof s[i].data; j++) printf("%02x", s[i].data[j]);
		printf("\"");
	}
	printf("]");
}

static int hexval(int c)
{
	if (c >= '0' && c <= '9') return c - '0';
	if (c >= 'a' && c <= 'f') return c - 'a' + 10;
	return -1;
}

int main(void)
{
	char *line = NULL;
	size_t cap = 0;
	setvbuf(stdout, NULL, _IOFBF, 1 << 16);
	while (getline(&line, &cap, stdin) > 0) {
		char cmd[64];
		long a[3] = { 0, 0, 0 };
		int n = 0, k, i;
		char *s, *e;
		if (line[0] == 'R' && (line[1] == '\n' || line[1] == 0)) {
			for (i = 0; i < 3; i++) {
				vbi_sliced_filter_delete(sf[i]);
				sf[i] = (1 == i) ? vbi_sliced_filter_new(collect, &cb_calls) : vbi_sliced_filter_new(NULL, NULL);
				if (!sf[i]) return 3;
			}
			printf("{\"reset\":1}\n"); fflush(stdout);
			continue;
		}
		if (!sf[0]) return 4;
		if (line[0] == 'F' && line[1] == ' ') {
			unsigned int max, n_in = 0, cnt = 0;
			vbi_sliced *in, *outA, *bufC;
			unsigned int ninA, noutA = 0, ninB, ninC, noutC = 0;
			vbi_bool okA, okB, okC;
			max = strtoul(line + 2, &e, 0);
			s = e;
			for (e = s; *e; e++) if (*e == ':') cnt++;
			cnt /= 2;
			in = malloc(cnt * sizeof *in + (cnt ? 0 : 1));
			while (n_in < cnt) {
				unsigned int j;
				memset(&in[n_in], 0, sizeof *in);
				in[n_in].id = strtoul(s, &e, 0); if (*e != ':') break; s = e + 1;
				in[n_in].line = strtoul(s, &e, 0); if (*e != ':') break; s = e + 1;
				for (j = 0; j < sizeof in->data && hexval(s[0]) >= 0 && hexval(s[1]) >= 0; j++, s += 2)
					in[n_in].data[j] = hexval(s[0]) * 16 + hexval(s[1]);
				n_in++;
			}
			outA = malloc(max * sizeof *outA + (max ? 0 : 1));
			ninA = n_in;
			okA = vbi_sliced_filter_cor(sf[0], outA, &noutA, max, in, &ninA);
			printf("{\"A\":{\"ok\":%d,\"nin\":%u,\"nout\":%u,\"out\":", !!okA, ninA, noutA);
			print_lines(outA, noutA <= max ? noutA : max);
			free(outA);
			cb_calls = 0; cb_n = 0;
			ninB = n_in;
			okB = vbi_sliced_filter_feed(sf[1], in, &ninB);
			printf("},\"B\":{\"ok\":%d,\"nin\":%u,\"cb\":%u,\"out\":", !!okB, ninB, cb_calls);
			print_lines(cb_lines, cb_n);
			bufC = malloc(n_in * sizeof *bufC + (n_in ? 0 : 1));
			if (n_in) memcpy(bufC, in, n_in * sizeof *bufC);
			ninC = n_in;
			okC = vbi_sliced_filter_cor(sf[2], bufC, &noutC, n_in, bufC, &ninC);
			printf("},\"C\":{\"ok\":%d,\"nin\":%u,\"nout\":%u,\"out\":", !!okC, ninC, noutC);
			print_lines(bufC, noutC <= n_in ? noutC : n_in);
			printf("}}\n"); fflush(stdout);
			free(bufC);
			free(in);
			continue;
		}
		if (sscanf(line, "%63s%n", cmd, &k) != 1) continue;
		s = line + k;
		while (n < 3) {
			long v = strtol(s, &e, 0);
			if (e == s) break;
			a[n++] = v; s = e;
		}
		printf("{\"ret\":[");
		for (i = 0; i < 3; i++) {
			long r = -1;
			if (!strcmp(cmd, "keep_services")) r = vbi_sliced_filter_keep_services(sf[i], a[0]);
			else if (!strcmp(cmd, "drop_services")) r = vbi_sliced_filter_drop_services(sf[i], a[0]);
			else if (!strcmp(cmd, "keep_ttx_pages")) r = vbi_sliced_filter_keep_ttx_pages(sf[i], a[0], a[1]);
			else if (!strcmp(cmd, "drop_ttx_pages")) r = vbi_sliced_filter_drop_ttx_pages(sf[i], a[0], a[1]);
			else if (!strcmp(cmd, "keep_ttx_page")) r = vbi_sliced_filter_keep_ttx_page(sf[i], a[0]);
			else if (!strcmp(cmd, "drop_ttx_page")) r = vbi_sliced_filter_drop_ttx_page(sf[i], a[0]);
			else if (!strcmp(cmd, "keep_ttx_subpages")) r = vbi_sliced_filter_keep_ttx_subpages(sf[i], a[0], a[1], a[2]);
			else if (!strcmp(cmd, "drop_ttx_subpages")) r = vbi_sliced_filter_drop_ttx_subpages(sf[i], a[0], a[1], a[2]);
			else if (!strcmp(cmd, "keep_ttx_subpage")) r = vbi_sliced_filter_keep_ttx_subpage(sf[i], a[0], a[1]);
			else if (!strcmp(cmd, "drop_ttx_subpage")) r = vbi_sliced_filter_drop_ttx_subpage(sf[i], a[0], a[1]);
			else if (!strcmp(cmd, "keep_ttx_system_pages")) { vbi_sliced_filter_keep_ttx_system_pages(sf[i], a[0]); r = 1; }
			else if (!strcmp(cmd, "reset")) { vbi_sliced_filter_reset(sf[i]); r = 1; }
			printf("%s%ld", i ? "," : "", r);
		}
		printf("]}\n"); fflush(stdout);
	}
	{
		int i;
		for (i = 0; i < 3; i++) vbi_sliced_filter_delete(sf[i]);
	}
	free(cb_lines);
	free(line);
	return 0;
}
