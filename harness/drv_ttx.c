/* Executor for TtxAssembly / TtxFaults behaviours (C02, C03): feeds raw Teletext packets to
 * vbi_decode() and prints page events; fetches formatted pages cell by cell.  No expectation here.
 * stdin:  R                     fresh decoder (TTX_PAGE handler registered)
 *         P <84 hex digits>     one packet, one frame -> {"ev":[[pgno,subno],...]}
 *         F pgno subno level    vbi_fetch_vt_page(.., 25 rows, navigation off) -> {"ok":..,"pgno","subno","rows":[[[u,fg,bg,fl,cn,sz,op],...]...]}
 *         C pgno subno          {"cached":..,"hi":..}
 *         L                     every (pgno, subno) in the cache
 * C03 additions (nothing above changes):
 *         F pgno subno level 2  digest only: {"ok":..,"pgno","subno","h":<hash of all cells, colours, links>}
 *         F pgno subno level 3  compact rows: "rows":["<40 x uuuuffbbfcs hex>",...] (same projection of blank cells)
 *         V                     also listen to NETWORK / NETWORK_ID / LOCAL_TIME / PROG_ID events; P then prints "ev2":[[type,a,b],...]
 * second C02/C03 round (nothing above changes):
 *         F pgno subno level 4  like the plain form with the opacity as seventh number of every cell (boxing)
 *         N pgno subno          vbi_fetch_vt_page(Level 1.5, 25 rows, navigation ON) -> {"ok":..,"pgno","subno","nav":[[pgno,subno] x 6]}
 * third C02 round (nothing above changes):
 *         G pgno subno level nrows nav   vbi_fetch_vt_page(level, nrows display rows, navigation nav) -> {"ok":..,"pgno","subno","nrows","ncols",
 *                               "rows":["<ncols x uuuuffbbfcso hex>",...],"nav":[[pgno,subno] x 6]}  (blank cells projected as in F .. 4)
 */
#include <stdio.h>
#include <stdlib.h>
#include <string.h>
#include "config.h"
#include "src/vbi.h"
#include "src/cache-priv.h"

static vbi_decoder *vbi;
static double t;
static int nev;
static int evs[64][2];

static int wide, nev2;
static long evs2[64][3];

static void handler2(vbi_event *ev, void *ud)
{
	(void) ud;
	if (nev2 >= 64) return;
	evs2[nev2][0] = ev->type; evs2[nev2][1] = 0; evs2[nev2][2] = 0;
	if (ev->type == VBI_EVENT_NETWORK || ev->type == VBI_EVENT_NETWORK_ID) {
		evs2[nev2][1] = ev->ev.network.cni_8301; evs2[nev2][2] = ev->ev.network.cni_8302;
	} else if (ev->type == VBI_EVENT_LOCAL_TIME) {
		evs2[nev2][1] = (long) ev->ev.local_time->time; evs2[nev2][2] = ev->ev.local_time->seconds_east;
	} else if (ev->type == VBI_EVENT_PROG_ID) {
		evs2[nev2][1] = ev->ev.prog_id->pil; evs2[nev2][2] = ev->ev.prog_id->cni;
	}
	nev2++;
}

static unsigned long long hmix(unsigned long long h, unsigned long long v)
{
	h ^= v; h *= 1099511628211ULL; return h;
}

static void handler(vbi_event *ev, void *ud)
{
	(void) ud;
	if (ev->type == VBI_EVENT_TTX_PAGE && nev < 64) {
		evs[nev][0] = ev->ev.ttx_page.pgno;
		evs[nev][1] = ev->ev.ttx_page.subno;
		nev++;
	}
}

int main(void)
{
	static char line[1024];
	setvbuf(stdout, NULL, _IOFBF, 1 << 18);
	while (fgets(line, sizeof line, stdin)) {
		if (line[0] == 'R') {
			if (vbi) vbi_decoder_delete(vbi);
			vbi = vbi_decoder_new();
			vbi_event_handler_register(vbi, VBI_EVENT_TTX_PAGE, handler, NULL);
			t = 1000.0; wide = 0;
			printf("{\"reset\":1}\n");
		} else if (line[0] == 'V') {
			vbi_event_handler_register(vbi, VBI_EVENT_NETWORK | VBI_EVENT_NETWORK_ID | VBI_EVENT_LOCAL_TIME | VBI_EVENT_PROG_ID, handler2, NULL);
			wide = 1;
			printf("{\"wide\":1}\n");
		} else if (line[0] == 'P') {
			vbi_sliced s;
			int i;
			const char *p = line + 1;
			while (*p == ' ') p++;
			memset(&s, 0, sizeof s);
			s.id = VBI_SLICED_TELETEXT_B; s.line = 7;
			for (i = 0; i < 42; i++) { unsigned v = 0; sscanf(p + 2 * i, "%2x", &v); s.data[i] = v; }
			nev = 0; nev2 = 0;
			vbi_decode(vbi, &s, 1, t);
			t += 0.04;
			printf("{\"ev\":[");
			for (i = 0; i < nev; i++) printf("%s[%d,%d]", i ? "," : "", evs[i][0], evs[i][1]);
			if (wide) {
				printf("],\"ev2\":[");
				for (i = 0; i < nev2; i++) printf("%s[%ld,%ld,%ld]", i ? "," : "", evs2[i][0], evs2[i][1], evs2[i][2]);
			}
			printf("]}\n");
		} else if (line[0] == 'F') {
			unsigned pgno, subno; int level, ok, r, c;
			vbi_page pg;
			int brief = 0;
			sscanf(line + 1, "%x %x %d %d", &pgno, &subno, &level, &brief);
			memset(&pg, 0, sizeof pg);
			ok = vbi_fetch_vt_page(vbi, &pg, pgno, subno, level == 1 ? VBI_WST_LEVEL_1 : level == 15 ? VBI_WST_LEVEL_1p5 :
					       level == 25 ? VBI_WST_LEVEL_2p5 : VBI_WST_LEVEL_3p5, 25, 0);
			printf("{\"ok\":%d", ok);
			if (ok && brief == 2) {
				unsigned long long h = 1469598103934665603ULL;
				h = hmix(h, pg.rows); h = hmix(h, pg.columns); h = hmix(h, pg.screen_color); h = hmix(h, pg.screen_opacity);
				for (r = 0; r < pg.rows * pg.columns; r++) {
					vbi_char *a = &pg.text[r];
					h = hmix(h, a->unicode); h = hmix(h, a->foreground | a->background << 8 | a->size << 16 | a->opacity << 24);
					h = hmix(h, a->flash | a->conceal << 1 | a->underline << 2 | a->bold << 3 | a->italic << 4 | a->proportional << 5 | a->link << 6);
				}
				for (c = 0; c < 40; c++) h = hmix(h, pg.color_map[c]);
				for (c = 0; c < 6; c++) { h = hmix(h, pg.nav_link[c].pgno); h = hmix(h, pg.nav_link[c].subno); }
				printf(",\"pgno\":%d,\"subno\":%d,\"h\":\"%016llx\"", pg.pgno, pg.subno, h);
				vbi_unref_page(&pg);
			} else if (ok && brief == 3) {
				printf(",\"pgno\":%d,\"subno\":%d,\"nrows\":%d,\"ncols\":%d,\"rows\":[", pg.pgno, pg.subno, pg.rows, pg.columns);
				for (r = 0; r < pg.rows; r++) {
					printf("%s\"", r ? "," : "");
					for (c = 0; c < pg.columns; c++) {
						vbi_char *a = &pg.text[r * pg.columns + c];
						if (a->unicode == 0x20 || a->unicode == 0xEE20 || a->unicode == 0xEE00)
							printf("0020%02x%02x%x%x%x", 0, a->background, 0, 0, a->size);
						else
							printf("%04x%02x%02x%x%x%x", a->unicode, a->foreground, a->background, a->flash, a->conceal, a->size);
					}
					printf("\"");
				}
				printf("]");
				vbi_unref_page(&pg);
			} else if (ok && brief == 4) {
				printf(",\"pgno\":%d,\"subno\":%d,\"nrows\":%d,\"ncols\":%d,\"rows\":[", pg.pgno, pg.subno, pg.rows, pg.columns);
				for (r = 0; r < pg.rows; r++) {
					printf("%s[", r ? "," : "");
					for (c = 0; c < pg.columns; c++) {
						vbi_char *a = &pg.text[r * pg.columns + c];
						if (a->unicode == 0x20 || a->unicode == 0xEE20 || a->unicode == 0xEE00)
							printf("%s[32,0,%u,0,0,%u,%u]", c ? "," : "", a->background, a->size, a->opacity);
						else
							printf("%s[%u,%u,%u,%u,%u,%u,%u]", c ? "," : "", a->unicode, a->foreground, a->background,
							       a->flash, a->conceal, a->size, a->opacity);
					}
					printf("]");
				}
				printf("]");
				vbi_unref_page(&pg);
			} else if (ok) {
				printf(",\"pgno\":%d,\"subno\":%d,\"nrows\":%d,\"ncols\":%d,\"rows\":[", pg.pgno, pg.subno, pg.rows, pg.columns);
				for (r = 0; r < (brief ? 0 : pg.rows); r++) {
					printf("%s[", r ? "," : "");
					for (c = 0; c < pg.columns; c++) {
						vbi_char *a = &pg.text[r * pg.columns + c];
						/* projection: a blank cell (space, blank mosaic) shows only its background */
						if (a->unicode == 0x20 || a->unicode == 0xEE20 || a->unicode == 0xEE00)
							printf("%s[32,0,%u,0,0,%u]", c ? "," : "", a->background, a->size);
						else
							printf("%s[%u,%u,%u,%u,%u,%u]", c ? "," : "", a->unicode, a->foreground, a->background,
							       a->flash, a->conceal, a->size);
					}
					printf("]");
				}
				printf("],\"nav\":[");
				for (c = 0; c < 6; c++) printf("%s[%d,%d]", c ? "," : "", pg.nav_link[c].pgno, pg.nav_link[c].subno);
				printf("]");
				vbi_unref_page(&pg);
			}
			printf("}\n");
		} else if (line[0] == 'N') {
			unsigned pgno, subno; int ok, c;
			vbi_page pg;
			sscanf(line + 1, "%x %x", &pgno, &subno);
			memset(&pg, 0, sizeof pg);
			ok = vbi_fetch_vt_page(vbi, &pg, pgno, subno, VBI_WST_LEVEL_1p5, 25, 1);
			printf("{\"ok\":%d", ok);
			if (ok) {
				printf(",\"pgno\":%d,\"subno\":%d,\"nav\":[", pg.pgno, pg.subno);
				for (c = 0; c < 6; c++) printf("%s[%d,%d]", c ? "," : "", pg.nav_link[c].pgno, pg.nav_link[c].subno);
				printf("]");
				vbi_unref_page(&pg);
			}
			printf("}\n");
		} else if (line[0] == 'G') {
			unsigned pgno, subno; int level = 1, nrows = 25, nav = 0, ok, r, c;
			vbi_page pg;
			sscanf(line + 1, "%x %x %d %d %d", &pgno, &subno, &level, &nrows, &nav);
			memset(&pg, 0, sizeof pg);
			ok = vbi_fetch_vt_page(vbi, &pg, pgno, subno, level == 1 ? VBI_WST_LEVEL_1 : level == 15 ? VBI_WST_LEVEL_1p5 :
					       level == 25 ? VBI_WST_LEVEL_2p5 : VBI_WST_LEVEL_3p5, nrows, nav);
			printf("{\"ok\":%d", ok);
			if (ok) {
				printf(",\"pgno\":%d,\"subno\":%d,\"nrows\":%d,\"ncols\":%d,\"rows\":[", pg.pgno, pg.subno, pg.rows, pg.columns);
				for (r = 0; r < pg.rows; r++) {
					printf("%s\"", r ? "," : "");
					for (c = 0; c < pg.columns; c++) {
						vbi_char *a = &pg.text[r * pg.columns + c];
						if (a->unicode == 0x20 || a->unicode == 0xEE20 || a->unicode == 0xEE00)
							printf("0020%02x%02x%x%x%x%x", 0, a->background, 0, 0, a->size, a->opacity);
						else
							printf("%04x%02x%02x%x%x%x%x", a->unicode, a->foreground, a->background, a->flash, a->conceal, a->size, a->opacity);
					}
					printf("\"");
				}
				printf("],\"nav\":[");
				for (c = 0; c < 6; c++) printf("%s[%d,%d]", c ? "," : "", pg.nav_link[c].pgno, pg.nav_link[c].subno);
				printf("]");
				vbi_unref_page(&pg);
			}
			printf("}\n");
		} else if (line[0] == 'L') {
			/* every page in the cache (internal audit through cache-priv.h) */
			cache_page *cp, *cp1;
			unsigned i; int first = 1;
			printf("{\"pages\":[");
			for (i = 0; i < HASH_SIZE; i++)
				FOR_ALL_NODES (cp, cp1, &vbi->ca->hash[i], hash_node) {
					printf("%s[%d,%d]", first ? "" : ",", cp->pgno, cp->subno); first = 0;
				}
			printf("]}\n");
		} else if (line[0] == 'C') {
			unsigned pgno, subno;
			sscanf(line + 1, "%x %x", &pgno, &subno);
			printf("{\"cached\":%d,\"hi\":%d}\n", vbi_is_cached(vbi, pgno, subno), vbi_cache_hi_subno(vbi, pgno));
		}
	}
	if (vbi) vbi_decoder_delete(vbi);
	return 0;
}
