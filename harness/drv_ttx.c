/* Executor for TtxAssembly / TtxFaults behaviours (C02, C03): feeds raw Teletext packets to
 * vbi_decode() and prints page events; fetches formatted pages cell by cell.  No expectation here.
 * stdin:  R                     fresh decoder (TTX_PAGE handler registered)
 *         P <84 hex digits>     one packet, one frame -> {"ev":[[pgno,subno],...]}
 *         F pgno subno level    vbi_fetch_vt_page(.., 25 rows, navigation off) -> {"ok":..,"pgno","subno","rows":[[[u,fg,bg,fl,cn,sz,op],...]...]}
 *         C pgno subno          {"cached":..,"hi":..}
 */
#include <stdio.h>
#include <stdlib.h>
#include <string.h>
#include "config.h"
#include "src/vbi.h"
#include "src/cache-priv.h"

static vbi_decoder *vbi;
static double t;
static int nev;
static int evs[64][2];

static void handler(vbi_event *ev, void *ud)
{
	(void) ud;
	if (ev->type == VBI_EVENT_TTX_PAGE && nev < 64) {
		evs[nev][0] = ev->ev.ttx_page.pgno;
		evs[nev][1] = ev->ev.ttx_page.subno;
		nev++;
	}
}

int main(void)
{
	static char line[1024];
	setvbuf(stdout, NULL, _IOFBF, 1 << 18);
	while (fgets(line, sizeof line, stdin)) {
		if (line[0] == 'R') {
			if (vbi) vbi_decoder_delete(vbi);
			vbi = vbi_decoder_new();
			vbi_event_handler_register(vbi, VBI_EVENT_TTX_PAGE, handler, NULL);
			t = 1000.0;
			printf("{\"reset\":1}\n");
		} else if (line[0] == 'P') {
			vbi_sliced s;
			int i;
			const char *p = line + 1;
			while (*p == ' ') p++;
			memset(&s, 0, sizeof s);
			s.id = VBI_SLICED_TELETEXT_B; s.line = 7;
			for (i = 0; i < 42; i++) { unsigned v = 0; sscanf(p + 2 * i, "%2x", &v); s.data[i] = v; }
			nev = 0;
			vbi_decode(vbi, &s, 1, t);
			t += 0.04;
			printf("{\"ev\":[");
			for (i = 0; i < nev; i++) printf("%s[%d,%d]", i ? "," : "", evs[i][0], evs[i][1]);
			printf("]}\n");
		} else if (line[0] == 'F') {
			unsigned pgno, subno; int level, ok, r, c;
			vbi_page pg;
			int brief = 0;
			sscanf(line + 1, "%x %x %d %d", &pgno, &subno, &level, &brief);
			memset(&pg, 0, sizeof pg);
			ok = vbi_fetch_vt_page(vbi, &pg, pgno, subno, level == 1 ? VBI_WST_LEVEL_1 : level == 15 ? VBI_WST_LEVEL_1p5 :
					       level == 25 ? VBI_WST_LEVEL_2p5 : VBI_WST_LEVEL_3p5, 25, 0);
			printf("{\"ok\":%d", ok);
			if (ok) {
				printf(",\"pgno\":%d,\"subno\":%d,\"nrows\":%d,\"ncols\":%d,\"rows\":[", pg.pgno, pg.subno, pg.rows, pg.columns);
				for (r = 0; r < (brief ? 0 : pg.rows); r++) {
					printf("%s[", r ? "," : "");
					for (c = 0; c < pg.columns; c++) {
						vbi_char *a = &pg.text[r * pg.columns + c];
						/* projection: a blank cell (space, blank mosaic) shows only its background */
						if (a->unicode == 0x20 || a->unicode == 0xEE20 || a->unicode == 0xEE00)
							printf("%s[32,0,%u,0,0,%u]", c ? "," : "", a->background, a->size);
						else
							printf("%s[%u,%u,%u,%u,%u,%u]", c ? "," : "", a->unicode, a->foreground, a->background,
							       a->flash, a->conceal, a->size);
					}
					printf("]");
				}
				printf("],\"nav\":[");
				for (c = 0; c < 6; c++) printf("%s[%d,%d]", c ? "," : "", pg.nav_link[c].pgno, pg.nav_link[c].subno);
				printf("]");
				vbi_unref_page(&pg);
			}
			printf("}\n");
		} else if (line[0] == 'L') {
			/* every page in the cache (internal audit through cache-priv.h) */
			cache_page *cp, *cp1;
			unsigned i; int first = 1;
			printf("{\"pages\":[");
			for (i = 0; i < HASH_SIZE; i++)
				FOR_ALL_NODES (cp, cp1, &vbi->ca->hash[i], hash_node) {
					printf("%s[%d,%d]", first ? "" : ",", cp->pgno, cp->subno); first = 0;
				}
			printf("]}\n");
		} else if (line[0] == 'C') {
			unsigned pgno, subno;
			sscanf(line + 1, "%x %x", &pgno, &subno);
			printf("{\"cached\":%d,\"hi\":%d}\n", vbi_is_cached(vbi, pgno, subno), vbi_cache_hi_subno(vbi, pgno));
		}
	}
	if (vbi) vbi_decoder_delete(vbi);
	return 0;
}
