/* Executor for the raw VBI decoder / bit slicer checks (C04, C05).
 * It only calls the library and prints what is observable: the fields of a configured slicer,
 * the records a decode returned, and - for buffers placed directly in front of an inaccessible
 * page - the address of a faulting access relative to the end of the buffer.
 * No expectation and no second slicer lives here.
 *
 * stdin (one command per line, numbers decimal unless noted, ids and payloads hex):
 *   R                                           reset -> {"reset":1}
 *   T                                           service table and pixel formats of the library
 *   D api fmt rate spl soff id                  configure a slicer (api new|old|renew), dump its fields; the search limit
 *                                               (cri_samples / cri_bytes) is printed as a SIGNED number.  renew = a slicer that
 *                                               was configured for a line of 4096 samples and is then given these parameters
 *   N api fmt rate soff id lo hi                for which line lengths lo..hi does the configured slicer search at all:
 *                                               runs [from,to,class], class 0 = refused or a search limit of 0, 1 = limit > 0,
 *                                               -1 = limit < 0 (as a signed number)
 *   L api fmt rate spl soff id mode lo hi step seed hex
 *        one exactly sized line in front of a guard page; mode sig: the service's reference
 *        waveform with sampling offset o = lo..hi (step); noise|sat|sq: `lo..hi` are seeds/levels/phases;
 *        late: black up to sample o = lo..hi, then run-in and framing code of the service as rectangular pulses
 *        cut: the samples o .. o + spl - 1 (o = lo..hi) of a whole scan line (64 us) with the service's reference waveform
 *             at its documented position: a cropped / truncated line
 *   H ...                                       like L, line and output buffer are exactly sized heap blocks (ASan is the monitor)
 *   A api fmt rate spl soff id o hex            the same single line on an exactly sized heap block (ASan)
 *   P fmt rate spl soff id o hex                new slicer with sampling points (8 bit luma formats)
 *   I api fmt rate bpl scanning s0 c0 s1 c1 interlaced synchronous       create a raw decoder
 *   S add set strict | S rem set | S resize s0 c0 s1 c1 | S reset | S par set scanning
 *   F o flags guard maxl n {line:id:hex}*n      render a frame with the library's transmitter, decode it into an array of
 *                                               maxl records (maxl < 0: one per row)
 *   G kind seed                                 frame of noise (kind 0), constant level seed (1), square wave (2)
 */
#define _GNU_SOURCE
#include <stdio.h>
#include <stdlib.h>
#include <string.h>
#include <signal.h>
#include <setjmp.h>
#include <unistd.h>
#include <sys/mman.h>
#include "config.h"
#include "src/misc.h"
#include "src/decoder.h"
#include "src/sampling_par.h"
#include "src/raw_decoder.h"
#include "src/bit_slicer.h"
#include "src/io-sim.h"

/* ------------------------------------------------------------------ guard pages */
static long pagesz;
static sigjmp_buf jb;
static volatile int armed;
static void *volatile fault_addr;

static void on_fault(int sig, siginfo_t *si, void *uc)
{
	(void) uc;
	if (!armed) {
		signal(sig, SIG_DFL);
		raise(sig);
		return;
	}
	fault_addr = si->si_addr;
	armed = 0;
	siglongjmp(jb, 1);
}

typedef struct { uint8_t *map; size_t maplen; uint8_t *p; size_t size; } gbuf;

/* `size` accessible bytes ending exactly where an inaccessible page begins */
static int galloc(gbuf *g, size_t size)
{
	size_t body = (size + pagesz - 1) / pagesz * pagesz;
	if (body == 0) body = pagesz;
	g->maplen = body + pagesz;
	g->map = mmap(NULL, g->maplen, PROT_READ | PROT_WRITE, MAP_PRIVATE | MAP_ANONYMOUS, -1, 0);
	if (g->map == MAP_FAILED) { g->map = NULL; return 0; }
	mprotect(g->map + body, pagesz, PROT_NONE);
	g->p = g->map + body - size;
	g->size = size;
	return 1;
}

static void gfree(gbuf *g)
{
	if (g->map) munmap(g->map, g->maplen);
	g->map = NULL;
}

/* ------------------------------------------------------------------ helpers */
static const _vbi_service_par *find_par(unsigned id)
{
	const _vbi_service_par *p;
	for (p = _vbi_service_table; p->id; ++p)
		if (p->id == id) return p;
	/* ids that merge two table entries */
	for (p = _vbi_service_table; p->id; ++p)
		if (p->id & id) return p;
	return NULL;
}

static int hex2bin(const char *h, uint8_t *out, int max)
{
	int n = 0;
	while (h[0] && h[1] && n < max) {
		unsigned v;
		if (sscanf(h, "%2x", &v) != 1) break;
		out[n++] = v; h += 2;
	}
	return n;
}

static void puthex(const uint8_t *p, int n)
{
	int i;
	for (i = 0; i < n; ++i) printf("%02x", p[i]);
}

static uint32_t rnd_state;
static unsigned rnd(void) { rnd_state = rnd_state * 1103515245u + 12345u; return (rnd_state >> 16) & 0xFFFF; }

static unsigned bpp_of(int fmt) { return VBI_PIXFMT_BPP(fmt); }
static int is_yuv(int fmt) { return fmt >= VBI_PIXFMT_YUV420 && fmt <= VBI_PIXFMT_VYUY; }

/* sampling parameters of an image that holds exactly one line of service `par` */
static void one_line_par(vbi_raw_decoder *sp, const _vbi_service_par *par, int fmt, int rate, int spl, int off,
			 unsigned *line)
{
	memset(sp, 0, sizeof *sp);
	sp->scanning = (par->videostd_set & VBI_VIDEOSTD_SET_525_60) ? 525 : 625;
	sp->sampling_format = fmt;
	sp->sampling_rate = rate;
	sp->bytes_per_line = spl * bpp_of(fmt);
	sp->offset = off;
	sp->interlaced = 0;
	sp->synchronous = 1;
	if (par->first[0]) {
		sp->start[0] = par->first[0]; sp->count[0] = 1; *line = par->first[0];
	} else {
		sp->start[1] = par->first[1]; sp->count[1] = 1; *line = par->first[1];
	}
}

/* render with the library's reference transmitter; 8 bit luma: plain VBI image, others: video image
 * on a background of random bytes with the signal in the luma / green channel */
static int render(uint8_t *raw, size_t size, vbi_raw_decoder *sp, unsigned flags, const vbi_sliced *s, unsigned n, int video)
{
	int fmt = sp->sampling_format;
	if (fmt == VBI_PIXFMT_YUV420 && !video)
		return _vbi_raw_vbi_image(raw, size, sp, 0, 0, flags, s, n);
	{
		size_t i;
		for (i = 0; i < size; ++i) raw[i] = rnd();
	}
	return _vbi_raw_video_image(raw, size, sp, 0, 0, 0, is_yuv(fmt) ? 0xFF : 0xFF00, flags, s, n);
}

/* ------------------------------------------------------------------ one slicer */
typedef struct {
	int is_old, ok;
	vbi_bit_slicer o;
	vbi3_bit_slicer n;
	const _vbi_service_par *par;
	int fmt, rate, spl, soff;
} slicer;

static int slicer_setup(slicer *s, const char *api, int fmt, int rate, int spl, int soff, unsigned id)
{
	const _vbi_service_par *par = find_par(id);
	memset(s, 0, sizeof *s);
	s->par = par; s->fmt = fmt; s->rate = rate; s->spl = spl; s->soff = soff;
	if (!par) return 0;
	s->is_old = !strcmp(api, "old");
	if (s->is_old) {
		vbi_bit_slicer_init(&s->o, spl, rate, par->cri_rate, par->bit_rate, par->cri_frc, par->cri_frc_mask,
				    par->cri_bits, par->frc_bits, par->payload, par->modulation, fmt);
		s->ok = 1;
	} else {
		_vbi3_bit_slicer_init(&s->n);
		if (!strcmp(api, "renew"))
			vbi3_bit_slicer_set_params(&s->n, fmt, rate, 0, 4096,
						   par->cri_frc >> par->frc_bits, par->cri_frc_mask >> par->frc_bits,
						   par->cri_bits, par->cri_rate, ~0u,
						   par->cri_frc & ((1U << par->frc_bits) - 1), par->frc_bits,
						   par->payload, par->bit_rate, (vbi3_modulation) par->modulation);
		s->ok = vbi3_bit_slicer_set_params(&s->n, fmt, rate, soff, spl,
						   par->cri_frc >> par->frc_bits, par->cri_frc_mask >> par->frc_bits,
						   par->cri_bits, par->cri_rate, ~0u,
						   par->cri_frc & ((1U << par->frc_bits) - 1), par->frc_bits,
						   par->payload, par->bit_rate, (vbi3_modulation) par->modulation);
	}
	return s->ok;
}

static int slicer_run(slicer *s, uint8_t *raw, uint8_t *buf, unsigned bufsize)
{
	if (s->is_old) return vbi_bit_slice(&s->o, raw, buf);
	return vbi3_bit_slicer_slice(&s->n, buf, bufsize, raw);
}

static void cmd_D(char *a)
{
	char api[8]; int fmt, rate, spl, soff; unsigned id; slicer s;
	if (sscanf(a, "%7s %d %d %d %d %x", api, &fmt, &rate, &spl, &soff, &id) != 6) { printf("{\"err\":\"args\"}\n"); return; }
	slicer_setup(&s, api, fmt, rate, spl, soff, id);
	if (!s.par) { printf("{\"err\":\"service\"}\n"); return; }
	if (s.is_old) {
		/* which template instance was selected tells the sample size */
		printf("{\"ok\":1,\"api\":\"old\",\"skip\":%d,\"scan\":%d,\"phase_shift\":%d,\"step\":%d,\"frc_bits\":%d,"
		       "\"payload\":%d,\"endian\":%d,\"cri_rate\":%d,\"osr\":%d,\"bps\":%u,\"lp\":0,\"spl\":%d,\"soff\":0}\n",
		       s.o.skip, s.o.cri_bytes, s.o.phase_shift, s.o.step, s.o.frc_bits, s.o.payload, s.o.endian,
		       s.o.cri_rate, s.o.oversampling_rate, bpp_of(fmt), spl);
	} else {
		/* the low-pass variant is the only one that runs with oversampling 1 */
		int lp = s.ok && s.n.oversampling_rate == (unsigned) rate;
		printf("{\"ok\":%d,\"api\":\"new\",\"skip\":%u,\"scan\":%d,\"phase_shift\":%u,\"step\":%u,\"frc_bits\":%u,"
		       "\"payload\":%u,\"endian\":%u,\"cri_rate\":%u,\"osr\":%u,\"bps\":%u,\"lp\":%d,\"spl\":%d,\"soff\":%d,\"total_bits\":%u}\n",
		       s.ok, s.n.skip, (int) s.n.cri_samples, s.n.phase_shift, s.n.step, s.n.frc_bits, s.n.payload, s.n.endian,
		       s.n.cri_rate, s.n.oversampling_rate, s.n.bytes_per_sample, lp, spl, soff, s.n.total_bits);
	}
}

static void cmd_N(char *a)
{
	char api[8]; int fmt, rate, soff, lo, hi, spl, from = 0, cls = 0, first = 1; unsigned id; slicer s;
	if (sscanf(a, "%7s %d %d %d %x %d %d", api, &fmt, &rate, &soff, &id, &lo, &hi) != 7) { printf("{\"err\":\"args\"}\n"); return; }
	printf("{\"runs\":[");
	for (spl = lo; spl <= hi + 1; ++spl) {
		int c = 0;
		if (spl <= hi) {
			int lim;
			slicer_setup(&s, api, fmt, rate, spl, soff, id);
			if (!s.par) break;
			lim = s.is_old ? s.o.cri_bytes : (int) s.n.cri_samples;
			c = !s.ok ? 0 : (lim > 0) - (lim < 0);
		}
		if (spl == lo) { from = spl; cls = c; continue; }
		if (c != cls || spl > hi) {
			printf("%s[%d,%d,%d]", first ? "" : ",", from, spl - 1, cls);
			first = 0; from = spl; cls = c;
		}
	}
	printf("]}\n");
}

#define MAXF 4000
/* L: guard pages, H (heap != 0): exactly sized heap blocks under ASan */
static void cmd_L(char *a, int heap)
{
	char api[8], mode[8], hex[200] = "";
	int fmt, rate, spl, soff, lo, hi, step; unsigned id, seed;
	slicer s; gbuf line, out; vbi_raw_decoder sp; vbi_sliced sl; unsigned lno;
	int o, n = 0, dec = 0, good = 0, nf = 0, first_good = 0, last_good = 0, have_good = 0, genfail = 0, touched = 0;
	static int fo[MAXF], fa[MAXF], fw[MAXF];
	unsigned pbytes, bpp;
	volatile int wfault = 0;
	uint8_t *full = NULL; int full_spl = 0;

	if (sscanf(a, "%7s %d %d %d %d %x %7s %d %d %d %u %199s", api, &fmt, &rate, &spl, &soff, &id, mode, &lo, &hi, &step, &seed, hex) < 11) {
		printf("{\"err\":\"args\"}\n"); return;
	}
	/* a refused configuration is sliced as well: the call must return FALSE without touching anything */
	slicer_setup(&s, api, fmt, rate, spl, soff, id);
	if (!s.par || spl < 1) { printf("{\"ok\":0}\n"); return; }
	bpp = bpp_of(fmt);
	pbytes = (s.par->payload + 7) / 8;
	memset(&line, 0, sizeof line); memset(&out, 0, sizeof out);
	if (heap) {
		line.size = (size_t) spl * bpp; line.p = malloc(line.size);
		out.size = pbytes; out.p = malloc(out.size);
		if (!line.p || !out.p) { printf("{\"err\":\"malloc\"}\n"); return; }
	} else if (!galloc(&line, (size_t) spl * bpp) || !galloc(&out, pbytes)) { printf("{\"err\":\"mmap\"}\n"); return; }
	memset(&sl, 0, sizeof sl);
	sl.id = id;
	hex2bin(hex, sl.data, sizeof sl.data);
	rnd_state = seed;
	if (step <= 0) step = 1;
	if (!strcmp(mode, "cut")) {
		/* one whole scan line with the reference waveform at its documented position (sampling starts at 0H) */
		full_spl = ((int) (rate * 64e-6) + 2) & ~1;
		full = malloc((size_t) full_spl * bpp);
		one_line_par(&sp, s.par, fmt, rate, full_spl, 0, &lno);
		sl.line = lno;
		if (!full || !render(full, (size_t) full_spl * bpp, &sp, 0, &sl, 1, 0)) { ++genfail; free(full); full = NULL; }
	}
	for (o = lo; o <= hi; o += step) {
		int r;
		++n;
		if (!strcmp(mode, "sig")) {
			one_line_par(&sp, s.par, fmt, rate, spl, o, &lno);
			sl.line = lno;
			if (!render(line.p, line.size, &sp, 0, &sl, 1, 0)) { ++genfail; continue; }
		} else if (!strcmp(mode, "cut")) {
			long i;
			if (!full) continue;
			for (i = 0; i < (long) spl; ++i) {
				long x = o + i;
				if (x >= 0 && x < full_spl) memcpy(line.p + i * bpp, full + x * bpp, bpp);
				else memset(line.p + i * bpp, 0, bpp);
			}
		} else if (!strcmp(mode, "noise")) {
			size_t i;
			rnd_state = seed + o * 2654435761u;
			for (i = 0; i < line.size; ++i) line.p[i] = rnd();
		} else if (!strcmp(mode, "sat")) {
			memset(line.p, o & 255, line.size);
		} else if (!strcmp(mode, "late")) {
			/* a transmission that begins late in the line, as rectangular pulses with full swing in every
			   byte: black up to sample o, then the run-in bits of the service's CRI word at the CRI rate,
			   the framing code bits at the bit rate, then alternating payload bits up to the line end */
			long i;
			const _vbi_service_par *q = s.par;
			double pc_ = (double) rate / q->cri_rate, pb = (double) rate / q->bit_rate;
			double cri_len = q->cri_bits * pc_;
			unsigned cri = q->cri_frc >> q->frc_bits, frc = q->cri_frc & ((1u << q->frc_bits) - 1);
			for (i = 0; i < (long) spl; ++i) {
				double t = (double) (i - o);
				int v = 0;
				if (t >= 0 && t < cri_len) {
					int b = (int) (t / pc_);
					v = (cri >> (q->cri_bits - 1 - b)) & 1;
				} else if (t >= cri_len) {
					int b = (int) ((t - cri_len) / pb);
					if (b < (int) q->frc_bits) v = (frc >> (q->frc_bits - 1 - b)) & 1;
					else v = (b ^ (seed >> 3)) & 1;
				}
				memset(line.p + i * bpp, v ? 0xFF : 0x00, bpp);
			}
		} else { /* sq: square wave with a period of 2 CRI bits, phase o, full swing in every byte */
			size_t i;
			double per = (double) rate / s.par->cri_rate;
			for (i = 0; i < (size_t) spl; ++i) {
				int v = (((long) ((i + o) / per)) & 1) ? 0xFF : 0x00;
				memset(line.p + i * bpp, v, bpp);
			}
		}
		memset(out.p, 0xA5, out.size);
		if (heap) {
			/* an access outside the blocks ends the process with an ASan report */
			r = slicer_run(&s, line.p, out.p, out.size);
			if (r) ++dec;
			else { size_t i; for (i = 0; i < out.size; ++i) if (out.p[i] != 0xA5) { ++touched; break; } }
			continue;
		}
		fault_addr = NULL;
		armed = 1;
		if (sigsetjmp(jb, 1) == 0) {
			r = slicer_run(&s, line.p, out.p, out.size);
			armed = 0;
			if (r) {
				++dec;
				if (!strcmp(mode, "sig")) {
					unsigned full_ = s.par->payload / 8, rest = s.par->payload & 7;
					int eq = !memcmp(out.p, sl.data, full_);
					if (eq && rest) eq = ((out.p[full_] ^ sl.data[full_]) & ((1 << rest) - 1)) == 0;
					if (eq) { ++good; if (!have_good) first_good = o; last_good = o; have_good = 1; }
				}
			}
		} else {
			uint8_t *fa_ = (uint8_t *) fault_addr;
			int w = (fa_ >= out.p + out.size && fa_ < out.map + out.maplen);
			if (w) wfault = 1;
			if (nf < MAXF) {
				fo[nf] = o;
				fa[nf] = w ? (int) (fa_ - (out.p + out.size)) : (int) (fa_ - (line.p + line.size));
				fw[nf] = w;
				++nf;
			}
			/* the slicer keeps its adapted threshold after an aborted call: start from a fresh one */
			slicer_setup(&s, api, fmt, rate, spl, soff, id);
		}
	}
	printf("{\"ok\":1,\"cfg_ok\":%d,\"n\":%d,\"dec\":%d,\"good\":%d,\"genfail\":%d,\"first_good\":%d,\"last_good\":%d,\"have_good\":%d,\"touched\":%d,\"nfault\":%d,\"wfault\":%d,\"faults\":[",
	       s.ok, n, dec, good, genfail, first_good, last_good, have_good, touched, nf, wfault);
	for (o = 0; o < nf; ++o) printf("%s[%d,%d,%d]", o ? "," : "", fo[o], fa[o], fw[o]);
	printf("]}\n");
	free(full);
	if (heap) { free(line.p); free(out.p); }
	else { gfree(&line); gfree(&out); }
}

/* exactly sized heap blocks: the sanitizer run-time is the monitor */
static void cmd_A(char *a)
{
	char api[8], hex[200] = "";
	int fmt, rate, spl, soff, o; unsigned id;
	slicer s; vbi_raw_decoder sp; vbi_sliced sl; unsigned lno; uint8_t *line, *out; int r; unsigned pbytes;
	if (sscanf(a, "%7s %d %d %d %d %x %d %199s", api, &fmt, &rate, &spl, &soff, &id, &o, hex) < 7) { printf("{\"err\":\"args\"}\n"); return; }
	if (!slicer_setup(&s, api, fmt, rate, spl, soff, id)) { printf("{\"ok\":0}\n"); return; }
	pbytes = (s.par->payload + 7) / 8;
	line = malloc((size_t) spl * bpp_of(fmt));
	out = malloc(pbytes);
	memset(&sl, 0, sizeof sl);
	sl.id = id;
	hex2bin(hex, sl.data, sizeof sl.data);
	one_line_par(&sp, s.par, fmt, rate, spl, o, &lno);
	sl.line = lno;
	rnd_state = 1;
	if (!render(line, (size_t) spl * bpp_of(fmt), &sp, 0, &sl, 1, 0)) { printf("{\"ok\":0,\"genfail\":1}\n"); free(line); free(out); return; }
	fflush(stdout);
	r = slicer_run(&s, line, out, pbytes);
	printf("{\"ok\":1,\"r\":%d,\"data\":\"", r);
	if (r) puthex(out, pbytes);
	printf("\"}\n");
	free(line); free(out);
}

static void cmd_P(char *a)
{
	char hex[200] = "";
	int fmt, rate, spl, soff, o; unsigned id, np = 0, i;
	slicer s; vbi_raw_decoder sp; vbi_sliced sl; unsigned lno; gbuf line; int r = 0;
	static vbi3_bit_slicer_point pts[1024];
	uint8_t buf[64];
	if (sscanf(a, "%d %d %d %d %x %d %199s", &fmt, &rate, &spl, &soff, &id, &o, hex) < 6) { printf("{\"err\":\"args\"}\n"); return; }
	if (!slicer_setup(&s, "new", fmt, rate, spl, soff, id)) { printf("{\"ok\":0}\n"); return; }
	/* room behind the line: this command observes positions, the bounds are observed by L */
	if (!galloc(&line, (size_t) (spl + 64) * bpp_of(fmt))) { printf("{\"err\":\"mmap\"}\n"); return; }
	memset(line.p, 0, line.size);
	memset(&sl, 0, sizeof sl);
	sl.id = id;
	hex2bin(hex, sl.data, sizeof sl.data);
	one_line_par(&sp, s.par, fmt, rate, spl, o, &lno);
	sl.line = lno;
	rnd_state = 1;
	if (!render(line.p, (size_t) spl * bpp_of(fmt), &sp, 0, &sl, 1, 0)) { printf("{\"ok\":0,\"genfail\":1}\n"); gfree(&line); return; }
	r = vbi3_bit_slicer_slice_with_points(&s.n, buf, sizeof buf, pts, &np, 1024, line.p);
	printf("{\"ok\":1,\"r\":%d,\"pts\":[", r);
	for (i = 0; i < np; ++i) printf("%s[%d,%u]", i ? "," : "", (int) pts[i].kind, pts[i].index);
	printf("]}\n");
	gfree(&line);
}

/* ------------------------------------------------------------------ raw decoder */
static struct {
	int have, is_old;
	vbi_raw_decoder rd;          /* old interface; also the sampling parameters */
	vbi3_raw_decoder *rd3;
	int strict;
} D;

static void dec_drop(int orderly)
{
	if (!D.have) return;
	if (orderly) {
		if (D.is_old) vbi_raw_decoder_destroy(&D.rd);
		else vbi3_raw_decoder_delete(D.rd3);
	}
	D.have = 0;
}

static unsigned dec_services(void)
{
	return D.is_old ? vbi3_raw_decoder_services((vbi3_raw_decoder *) D.rd.pattern)
			: vbi3_raw_decoder_services(D.rd3);
}

static int dec_create(int is_old, int fmt, int rate, int bpl, int scanning, int s0, int c0, int s1, int c1, int il, int sy)
{
	vbi_raw_decoder sp;
	D.is_old = is_old;
	if (D.is_old) {
		vbi_raw_decoder_init(&D.rd);
		D.rd.scanning = scanning; D.rd.sampling_format = fmt; D.rd.sampling_rate = rate; D.rd.bytes_per_line = bpl;
		D.rd.offset = 0; D.rd.start[0] = s0; D.rd.count[0] = c0; D.rd.start[1] = s1; D.rd.count[1] = c1;
		D.rd.interlaced = il; D.rd.synchronous = sy;
		D.have = 1;
	} else {
		memset(&sp, 0, sizeof sp);
		sp.scanning = scanning; sp.sampling_format = fmt; sp.sampling_rate = rate; sp.bytes_per_line = bpl;
		sp.offset = 0; sp.start[0] = s0; sp.count[0] = c0; sp.start[1] = s1; sp.count[1] = c1;
		sp.interlaced = il; sp.synchronous = sy;
		D.rd3 = vbi3_raw_decoder_new(&sp);
		D.rd = sp;      /* the sampling parameters, for the transmitter */
		D.have = D.rd3 != NULL;
	}
	return D.have;
}

static void cmd_I(char *a)
{
	char api[8]; int fmt, rate, bpl, scanning, s0, c0, s1, c1, il, sy;
	if (sscanf(a, "%7s %d %d %d %d %d %d %d %d %d %d", api, &fmt, &rate, &bpl, &scanning, &s0, &c0, &s1, &c1, &il, &sy) != 11) {
		printf("{\"err\":\"args\"}\n"); return;
	}
	dec_drop(1);
	D.strict = 0;
	printf("{\"ok\":%d}\n", dec_create(!strcmp(api, "old"), fmt, rate, bpl, scanning, s0, c0, s1, c1, il, sy));
}

static void cmd_S(char *a)
{
	char op[8]; unsigned set = 0; int x = 0, s0, c0, s1, c1;
	if (!D.have) { printf("{\"err\":\"no decoder\"}\n"); return; }
	if (sscanf(a, "%7s", op) != 1) { printf("{\"err\":\"args\"}\n"); return; }
	if (!strcmp(op, "add")) {
		sscanf(a, "%*s %x %d", &set, &x);
		D.strict = x;
		set = D.is_old ? vbi_raw_decoder_add_services(&D.rd, set, x) : vbi3_raw_decoder_add_services(D.rd3, set, x);
		printf("{\"set\":%u}\n", set);
	} else if (!strcmp(op, "rem")) {
		sscanf(a, "%*s %x", &set);
		set = D.is_old ? vbi_raw_decoder_remove_services(&D.rd, set) : vbi3_raw_decoder_remove_services(D.rd3, set);
		printf("{\"set\":%u}\n", set);
	} else if (!strcmp(op, "check")) {
		sscanf(a, "%*s %x %d", &set, &x);
		set = vbi_sampling_par_check_services((vbi_sampling_par *) &D.rd, set, x);
		printf("{\"set\":%u}\n", set);
	} else if (!strcmp(op, "resize")) {
		int st[2]; unsigned ct[2];
		sscanf(a, "%*s %d %d %d %d %d", &s0, &c0, &s1, &c1, &x);
		st[0] = s0; st[1] = s1; ct[0] = c0; ct[1] = c1;
		if (D.is_old) {
			vbi_raw_decoder_resize(&D.rd, st, ct);
		} else {
			D.rd.start[0] = s0; D.rd.count[0] = c0; D.rd.start[1] = s1; D.rd.count[1] = c1;
			vbi3_raw_decoder_set_sampling_par(D.rd3, (vbi_sampling_par *) &D.rd, x);
		}
		printf("{\"set\":%u}\n", dec_services());
	} else if (!strcmp(op, "reset")) {
		if (D.is_old) vbi_raw_decoder_reset(&D.rd); else vbi3_raw_decoder_reset(D.rd3);
		printf("{\"set\":%u}\n", dec_services());
	} else
		printf("{\"err\":\"op\"}\n");
}

/* decode `img` (exactly the image size, in front of a guard page when guard) into an output array of exactly
 * maxl records in front of a guard page, followed in the accessible case by canary records */
static void decode_and_print(gbuf *img, int maxl_arg)
{
	unsigned rows = D.rd.count[0] + D.rd.count[1];
	unsigned maxl = D.is_old ? rows : (maxl_arg >= 0 ? (unsigned) maxl_arg : rows);
	gbuf out; vbi_sliced *o; int n = -1; unsigned i;
	vbi_sliced *shadow;
	if (!galloc(&out, maxl * sizeof(vbi_sliced))) { printf("{\"err\":\"mmap\"}\n"); return; }
	o = (vbi_sliced *) out.p;
	rnd_state = 7;
	for (i = 0; i < out.size; ++i) out.p[i] = rnd();
	shadow = malloc(out.size);
	memcpy(shadow, out.p, out.size);
	fault_addr = NULL;
	armed = 1;
	if (sigsetjmp(jb, 1) == 0) {
		if (D.is_old) n = vbi_raw_decode(&D.rd, img->p, o);
		else n = vbi3_raw_decoder_decode(D.rd3, o, maxl, img->p);
		armed = 0;
		printf("{\"n\":%d,\"rec\":[", n);
		for (i = 0; (int) i < n && i < maxl; ++i) {
			unsigned pb = (vbi_sliced_payload_bits(o[i].id) + 7) / 8;
			if (pb > sizeof o[i].data) pb = sizeof o[i].data;
			printf("%s{\"id\":%u,\"line\":%u,\"data\":\"", i ? "," : "", o[i].id, o[i].line);
			puthex(o[i].data, pb);
			/* bytes of the record behind the payload must be untouched */
			printf("\",\"tail\":%d}", !memcmp(o[i].data + pb, shadow[i].data + pb, sizeof o[i].data - pb));
		}
		printf("],\"rest\":%d}\n", (n >= 0 && (unsigned) n <= maxl) ?
		       !memcmp(o + n, shadow + n, (maxl - n) * sizeof(vbi_sliced)) : 0);
	} else {
		uint8_t *f = (uint8_t *) fault_addr;
		int w = (f >= out.p + out.size && f < out.map + out.maplen);
		printf("{\"fault\":1,\"write\":%d,\"off\":%ld}\n", w, w ? (long) (f - (out.p + out.size)) : (long) (f - (img->p + img->size)));
		/* the decoder was left in the middle of a call (old interface: with its mutex held): abandon it
		   and continue with a fresh one that decodes the same services */
		{
			vbi_raw_decoder keep = D.rd; unsigned set = dec_services(); int is_old = D.is_old;
			dec_drop(0);
			if (dec_create(is_old, keep.sampling_format, keep.sampling_rate, keep.bytes_per_line, keep.scanning,
				       keep.start[0], keep.count[0], keep.start[1], keep.count[1], keep.interlaced, keep.synchronous)) {
				if (D.is_old) vbi_raw_decoder_add_services(&D.rd, set, D.strict);
				else vbi3_raw_decoder_add_services(D.rd3, set, D.strict);
			}
		}
	}
	free(shadow);
	gfree(&out);
}

static void cmd_F(char *a)
{
	int o, guard, maxl, n, i, used = 0, k; unsigned flags;
	vbi_sliced sl[64]; gbuf img; vbi_raw_decoder sp; unsigned rows; size_t size;
	if (!D.have) { printf("{\"err\":\"no decoder\"}\n"); return; }
	if (sscanf(a, "%d %u %d %d %d%n", &o, &flags, &guard, &maxl, &n, &used) < 5 || n > 64) { printf("{\"err\":\"args\"}\n"); return; }
	a += used;
	memset(sl, 0, sizeof sl);
	for (i = 0; i < n; ++i) {
		unsigned line, id; char hex[200] = "";
		if (sscanf(a, " %u:%x:%199s%n", &line, &id, hex, &k) < 2) { printf("{\"err\":\"line\"}\n"); return; }
		a += k;
		sl[i].line = line; sl[i].id = id;
		hex2bin(hex, sl[i].data, sizeof sl[i].data);
	}
	sp = D.rd;
	sp.offset = o;
	rows = sp.count[0] + sp.count[1];
	size = (size_t) rows * sp.bytes_per_line;
	if (!galloc(&img, size)) { printf("{\"err\":\"mmap\"}\n"); return; }
	rnd_state = 99;
	if (!render(img.p, size, &sp, flags & 0xFFFF, sl, n, (flags >> 16) & 1)) { printf("{\"genfail\":1}\n"); gfree(&img); return; }
	decode_and_print(&img, maxl);
	gfree(&img);
}

static void cmd_G(char *a)
{
	int kind; unsigned seed; gbuf img; size_t size, i; unsigned rows;
	if (!D.have) { printf("{\"err\":\"no decoder\"}\n"); return; }
	if (sscanf(a, "%d %u", &kind, &seed) != 2) { printf("{\"err\":\"args\"}\n"); return; }
	rows = D.rd.count[0] + D.rd.count[1];
	size = (size_t) rows * D.rd.bytes_per_line;
	if (!galloc(&img, size)) { printf("{\"err\":\"mmap\"}\n"); return; }
	if (kind == 0) { rnd_state = seed; for (i = 0; i < size; ++i) img.p[i] = rnd(); }
	else if (kind == 1) memset(img.p, seed & 255, size);
	else {
		unsigned bpp = bpp_of(D.rd.sampling_format), per = seed ? seed : 1;
		for (i = 0; i < size; ++i) img.p[i] = (((i / bpp) / per) & 1) ? 0xFF : 0;
	}
	decode_and_print(&img, -1);
	gfree(&img);
}

static void cmd_T(void)
{
	const _vbi_service_par *p; int f, first = 1;
	printf("{\"sliced_size\":%u,\"services\":[", (unsigned) sizeof(vbi_sliced));
	for (p = _vbi_service_table; p->id; ++p) {
		printf("%s{\"id\":%u,\"label\":\"%s\",\"std\":%d,\"first\":[%u,%u],\"last\":[%u,%u],\"offset\":%u,\"cri_rate\":%u,"
		       "\"bit_rate\":%u,\"cri_frc\":%u,\"mask\":%u,\"cri_bits\":%u,\"frc_bits\":%u,\"payload\":%u,\"mod\":%d,\"flags\":%d}",
		       first ? "" : ",", p->id, p->label, (p->videostd_set & VBI_VIDEOSTD_SET_525_60) ? 525 : 625,
		       p->first[0], p->first[1], p->last[0], p->last[1], p->offset, p->cri_rate, p->bit_rate, p->cri_frc,
		       p->cri_frc_mask, p->cri_bits, p->frc_bits, p->payload, (int) p->modulation, (int) p->flags);
		first = 0;
	}
	printf("],\"formats\":[");
	first = 1;
	for (f = 0; f < VBI_MAX_PIXFMTS; ++f) {
		if (!(VBI_PIXFMT_SET_ALL & VBI_PIXFMT_SET(f))) continue;
		printf("%s{\"fmt\":%d,\"bpp\":%d,\"yuv\":%d}", first ? "" : ",", f, (int) VBI_PIXFMT_BPP(f), is_yuv(f));
		first = 0;
	}
	printf("]}\n");
}

int main(void)
{
	static char line[16384];
	struct sigaction sa;
	pagesz = sysconf(_SC_PAGESIZE);
	memset(&sa, 0, sizeof sa);
	sa.sa_sigaction = on_fault;
	sa.sa_flags = SA_SIGINFO | SA_NODEFER;
	sigaction(SIGSEGV, &sa, NULL);
	sigaction(SIGBUS, &sa, NULL);
	setvbuf(stdout, NULL, _IOFBF, 1 << 16);
	while (fgets(line, sizeof line, stdin)) {
		char *a = line + 1;
		switch (line[0]) {
		case 'R': dec_drop(1); printf("{\"reset\":1}\n"); break;
		case 'T': cmd_T(); break;
		case 'D': cmd_D(a); break;
		case 'N': cmd_N(a); break;
		case 'L': cmd_L(a, 0); break;
		case 'H': cmd_L(a, 1); break;
		case 'A': cmd_A(a); break;
		case 'P': cmd_P(a); break;
		case 'I': cmd_I(a); break;
		case 'S': cmd_S(a); break;
		case 'F': cmd_F(a); break;
		case 'G': cmd_G(a); break;
		default: break;
		}
		fflush(stdout);
	}
	dec_drop(1);
	return 0;
}
