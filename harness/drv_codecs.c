/* Recorder for the VPS / DVB PDC descriptor / Teletext packet 8/30 codecs (C12).  Every command calls the
 * public functions of src/vps.c and src/packet-830.c on the given input and prints the inputs and everything
 * observable (return values, output buffers, output structures, whether an output object still holds the
 * canary pattern it was filled with before the call).  No expectation and no bit layout lives here; the log
 * is validated against spec/Codecs.tla by TLC (spec/Trace_Codecs.tla).
 *
 * stdin (numbers decimal, signed 32 bit; buffers hex):
 *   R                                         reset -> {"reset":1}
 *   C <bg 13 bytes> <cni>                     vbi_encode_vps_cni on a copy of bg, then the chain below on the result
 *   P <bg 13 bytes> <cni> <pil> <pcs> <pty> <luf> <mi> <prf> <channel>      vbi_encode_vps_pdc, then the chain
 *   D <bg 5 bytes> <pil>                      vbi_encode_dvb_pdc_descriptor, then the chain
 *   c <13 bytes> | p <13 bytes> | d <5 bytes> the chain only: decode the buffer, re-encode what was decoded into a copy of it
 *   1 <42 bytes> [json]                       vbi_decode_teletext_8301_cni and _local_time
 *   2 <42 bytes> [json]                       vbi_decode_teletext_8302_cni and _pdc
 *                                             (the optional json says what the transmitter meant; it is copied to the log)
 */
#include <stdio.h>
#include <stdlib.h>
#include <string.h>
#include <time.h>
#include "config.h"
#include "src/misc.h"
#include "src/pdc.h"
#include "src/vps.h"
#include "src/packet-830.h"

#define CANARY 0x5A

static int unhex(const char **s, uint8_t *buf, int n)
{
	int i;
	while (**s == ' ') ++*s;
	for (i = 0; i < n; i++) {
		unsigned v;
		if (sscanf(*s, "%2x", &v) != 1) return 0;
		buf[i] = v; *s += 2;
	}
	return 1;
}

static long num(const char **s)
{
	char *e;
	long v = strtol(*s, &e, 10);
	*s = e;
	return v;
}

static void pbuf(const char *name, const uint8_t *b, int n)
{
	int i;
	printf("\"%s\":[", name);
	for (i = 0; i < n; i++) printf("%s%u", i ? "," : "", b[i]);
	printf("]");
}

static void ppid(const char *name, const vbi_program_id *p)
{
	int rsv = p->_reserved2[0] || p->_reserved2[1] || p->_reserved3[0] || p->_reserved3[1] || p->_reserved3[2] || p->_reserved3[3];
	printf("\"%s\":{\"ch\":%d,\"ct\":%d,\"cni\":%d,\"pil\":%d,\"luf\":%d,\"mi\":%d,\"prf\":%d,\"pcs\":%d,\"pty\":%d,\"td\":%d,\"rsv\":%d}",
	       name, (int) p->channel, (int) p->cni_type, (int) p->cni, (int) p->pil, (int) p->luf, (int) p->mi, (int) p->prf,
	       (int) p->pcs_audio, (int) p->pty, (int) p->tape_delayed, rsv);
}

static int untouched(const void *p, size_t n)
{
	const uint8_t *b = p;
	size_t i;
	for (i = 0; i < n; i++) if (b[i] != CANARY) return 0;
	return 1;
}

/* decode `buf`, then encode what was decoded into a copy of buf */
static void chain(int kind, const uint8_t *buf, int n)
{
	uint8_t re[13];
	int dok, rok = -1, same;
	memcpy(re, buf, n);
	if (kind == 'c') {
		unsigned int cni;
		memset(&cni, CANARY, sizeof cni);
		dok = vbi_decode_vps_cni(&cni, buf);
		same = untouched(&cni, sizeof cni);
		if (dok) rok = vbi_encode_vps_cni(re, cni);
		printf("\"dok\":%d,\"dsame\":%d,\"back\":%d,", dok, same, (int) cni);
	} else {
		vbi_program_id pid;
		memset(&pid, CANARY, sizeof pid);
		dok = kind == 'p' ? vbi_decode_vps_pdc(&pid, buf) : vbi_decode_dvb_pdc_descriptor(&pid, buf);
		same = untouched(&pid, sizeof pid);
		if (dok) rok = kind == 'p' ? vbi_encode_vps_pdc(re, &pid) : vbi_encode_dvb_pdc_descriptor(re, &pid);
		printf("\"dok\":%d,\"dsame\":%d,", dok, same);
		ppid("back", &pid);
		printf(",");
	}
	printf("\"rok\":%d,", rok);
	pbuf("re", re, n);
}

int main(void)
{
	static char line[4096];
	setvbuf(stdout, NULL, _IOFBF, 1 << 16);
	while (fgets(line, sizeof line, stdin)) {
		const char *s = line + 1;
		uint8_t bg[42], out[42];
		int ok;
		line[strcspn(line, "\r\n")] = 0;
		switch (line[0]) {
		case 'R':
			printf("{\"reset\":1}\n");
			break;
		case 'C': {
			long cni;
			if (!unhex(&s, bg, 13)) goto bad;
			cni = num(&s);
			memcpy(out, bg, 13);
			ok = vbi_encode_vps_cni(out, (unsigned int) cni);
			printf("{\"f\":\"evc\","); pbuf("bg", bg, 13);
			printf(",\"cni\":%ld,\"ok\":%d,", cni, ok); pbuf("out", out, 13); printf(",");
			chain('c', out, 13); printf("}\n");
			break;
		}
		case 'P': case 'D': {
			vbi_program_id pid;
			int n = line[0] == 'P' ? 13 : 5;
			long v[8] = { 0, 0, 0, 0, 0, 0, 0, 0 };
			int i;
			if (!unhex(&s, bg, n)) goto bad;
			if (line[0] == 'P') for (i = 0; i < 8; i++) v[i] = num(&s);
			else v[1] = num(&s);
			memset(&pid, 0, sizeof pid);
			pid.cni = (unsigned int) v[0]; pid.pil = (vbi_pil) v[1]; pid.pcs_audio = (vbi_pcs_audio) v[2];
			pid.pty = (unsigned int) v[3]; pid.luf = (int) v[4]; pid.mi = (int) v[5]; pid.prf = (int) v[6];
			pid.channel = (vbi_pid_channel) v[7];
			pid.cni_type = line[0] == 'P' ? VBI_CNI_TYPE_VPS : VBI_CNI_TYPE_NONE;
			memcpy(out, bg, n);
			ok = line[0] == 'P' ? vbi_encode_vps_pdc(out, &pid) : vbi_encode_dvb_pdc_descriptor(out, &pid);
			printf("{\"f\":\"%s\",", line[0] == 'P' ? "evp" : "edd"); pbuf("bg", bg, n);
			printf(",\"p\":{\"cni\":%ld,\"pil\":%ld,\"pcs\":%ld,\"pty\":%ld,\"luf\":%ld,\"mi\":%ld,\"prf\":%ld,\"ch\":%ld},\"ok\":%d,",
			       v[0], v[1], v[2], v[3], v[4], v[5], v[6], v[7], ok);
			pbuf("out", out, n); printf(",");
			chain(line[0] == 'P' ? 'p' : 'd', out, n); printf("}\n");
			break;
		}
		case 'c': case 'p': case 'd': {
			int n = line[0] == 'd' ? 5 : 13;
			if (!unhex(&s, bg, n)) goto bad;
			printf("{\"f\":\"%s\",", line[0] == 'c' ? "dvc" : line[0] == 'p' ? "dvp" : "ddd"); pbuf("buf", bg, n); printf(",");
			chain(line[0], bg, n); printf("}\n");
			break;
		}
		case '1': {
			unsigned int cni;
			time_t t;
			int east, cok, tok, csame, tsame;
			long long days = 0, secs = 0;
			if (!unhex(&s, bg, 42)) goto bad;
			while (*s == ' ') s++;
			memset(&cni, CANARY, sizeof cni); memset(&t, CANARY, sizeof t); memset(&east, CANARY, sizeof east);
			cok = vbi_decode_teletext_8301_cni(&cni, bg);
			csame = untouched(&cni, sizeof cni);
			tok = vbi_decode_teletext_8301_local_time(&t, &east, bg);
			tsame = untouched(&t, sizeof t) && untouched(&east, sizeof east);
			if (tok) {		/* time_t does not fit the checker's integers: days and second of the day */
				days = (long long) t / 86400; secs = (long long) t % 86400;
				if (secs < 0) { secs += 86400; days -= 1; }
			} else
				east = 0;
			printf("{\"f\":\"t1\","); pbuf("buf", bg, 42);
			printf(",\"cok\":%d,\"csame\":%d,\"cni\":%d,\"tok\":%d,\"tsame\":%d,\"days\":%lld,\"secs\":%lld,\"east\":%d",
			       cok, csame, (int) cni, tok, tsame, days, secs, east);
			if (*s) printf(",\"v\":%s", s);
			printf("}\n");
			break;
		}
		case '2': {
			unsigned int cni;
			vbi_program_id pid;
			int cok, pok, csame, psame;
			if (!unhex(&s, bg, 42)) goto bad;
			while (*s == ' ') s++;
			memset(&cni, CANARY, sizeof cni); memset(&pid, CANARY, sizeof pid);
			cok = vbi_decode_teletext_8302_cni(&cni, bg);
			csame = untouched(&cni, sizeof cni);
			pok = vbi_decode_teletext_8302_pdc(&pid, bg);
			psame = untouched(&pid, sizeof pid);
			printf("{\"f\":\"t2\","); pbuf("buf", bg, 42);
			printf(",\"cok\":%d,\"csame\":%d,\"cni\":%d,\"pok\":%d,\"psame\":%d,", cok, csame, (int) cni, pok, psame);
			ppid("pid", &pid);
			if (*s) printf(",\"v\":%s", s);
			printf("}\n");
			break;
		}
		default:
		bad:
			printf("{\"error\":\"bad command\"}\n");
			break;
		}
	}
	return 0;
}
