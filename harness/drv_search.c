/* Executor for TtxSearch behaviours (C17): populations are created by real transmissions
 * through vbi_decode(); vbi_search_new/next are called as the behaviour says; every result is
 * printed as one JSON line.  No expectation lives here - bin/check compares with the spec.
 *
 * stdin protocol (one command per line):
 *   B <id>                 begin behaviour (fresh decoder)
 *   P <pgno> <subno> <occ> [<rowtext>] transmit a page with <occ> occurrences of the pattern
 *   N <pgno> <subno> [<pattern> <casefold> <regexp>]   vbi_search_new
 *   S <dir>                vbi_search_next
 *   Y <layout>             presentation of the pages sent from now on (reset by B): 0 plain, 1 double height text in
 *                          row 1, 2 double size in row 1, 3 double width in row 1, 4 double height in rows 5 10 15 20,
 *                          5 occurrences at row 1+5i column 3i (the first one in the very first cell searched)
 *   E                      end behaviour (decoder deleted)
 * pattern space layer (rows and patterns given byte by byte, one cache serves many searches):
 *   G <pgno> <subno>       begin the transmission of a page (header with erase flag; rows not sent stay blank)
 *   W <row> <80 hex digits> one row of the page: 40 seven-bit codes incl. spacing attributes
 *   F                      end of the page (time filling header of its magazine)
 *   I <id>                 id printed with the following results
 *   M <pgno> <subno> <casefold> <regexp> <4 hex digits per pattern character>   vbi_search_new
 *   L <dir> <max>          vbi_search_next until it does not report SUCCESS, at most <max> calls
 *   D                      marker: the commands of the current id are done (the process is still alive)
 */
#include <stdio.h>
#include <stdlib.h>
#include <signal.h>
#include <unistd.h>
#include <sys/time.h>
#include "config.h"
#include "src/vbi.h"
#include "src/search.h"
#include "src/hamm.h"
#include "ttx_tx.h"

static vbi_decoder *vbi;
static vbi_search *srch;
static ttx_tx tx;
static char cur_id[64];
static const char *PATTERN = "ZQX";
static int layout;

static void on_alarm(int sig)
{
	char buf[128];
	int n = snprintf(buf, sizeof buf, "{\"id\":\"%s\",\"hang\":true}\n", cur_id);
	(void) sig;
	if (write(1, buf, n) < 0) {}
	_exit(3);
}

/* watchdog on CPU time of this process (a search that never returns burns CPU; a loaded machine must not look like a hang) */
static void watchdog(int seconds)
{
	struct itimerval it;
	memset(&it, 0, sizeof it);
	it.it_value.tv_sec = seconds;
	setitimer(ITIMER_PROF, &it, NULL);
}

static void ev_handler(vbi_event *ev, void *ud) { (void) ev; (void) ud; }

static void send_page(int pgno, int subno, int occ, const char *custom)
{
	int mag = (pgno >> 8) & 7, row, i;
	if (!mag) mag = 8;
	ttx_send_header(&tx, pgno, subno, TX_C4_ERASE, 0);
	for (row = 1; row <= 23; row++) {
		char text[41];
		memset(text, ' ', 40); text[40] = 0;
		memcpy(text, "row", 3);
		text[3] = 'a' + row;
		if (custom && row == 3) {
			size_t n = strlen(custom);
			memcpy(text + 4, custom, n > 36 ? 36 : n);
		}
		for (i = 0; i < occ; i++)
			if (layout == 5 ? row == 1 + 5 * i : row == 3 + 5 * i)      /* layout 5: first occurrence in the first cell of row 1 */
				memcpy(text + (layout == 5 ? 0 : 4) + 3 * i, PATTERN, 3);
		/* enlarged text on rows that carry no occurrence (the row below shows the lower halves) */
		if ((layout >= 1 && layout <= 3 && row == 1) || (layout == 4 && row % 5 == 0)) {
			text[5] = layout == 2 ? 0x0F : layout == 3 ? 0x0E : 0x0D;
			memcpy(text + 6, "BIG TEXT", 8);
			text[20] = 0x0C;    /* normal size */
		}
		ttx_send_text_row(&tx, mag, row, text);
	}
	ttx_send_filler(&tx, mag);
}

static int hexv(int c) { return c >= 'a' ? c - 'a' + 10 : c >= 'A' ? c - 'A' + 10 : c - '0'; }

/* one vbi_search_next call under the watchdog; prints status, page and highlighted cells; returns the status */
static int search_next(int dir)
{
	int r, row, col;
	vbi_page *pg = NULL;
	watchdog(4);
	r = vbi_search_next(srch, &pg, dir);
	watchdog(0);
	printf("{\"id\":\"%s\",\"r\":%d", cur_id, r);
	if (pg) {
		int first = 1;
		printf(",\"pg\":%d,\"sub\":%d,\"hl\":[", pg->pgno, pg->subno);
		for (row = 0; row < pg->rows; row++)
			for (col = 0; col < pg->columns; col++) {
				vbi_char *ac = &pg->text[row * pg->columns + col];
				if (ac->foreground == 32 + VBI_BLACK && ac->background == 32 + VBI_YELLOW) {
					printf("%s[%d,%d]", first ? "" : ",", row, col);
					first = 0;
				}
			}
		printf("]");
	}
	printf("}\n");
	return r;
}

int main(void)
{
	char line[512];
	int cur_mag = 1;
	signal(SIGPROF, on_alarm);
	setvbuf(stdout, NULL, _IOLBF, 0);
	while (fgets(line, sizeof line, stdin)) {
		char c = line[0];
		if (c == 'B') {
			sscanf(line + 1, "%63s", cur_id);
			vbi = vbi_decoder_new();
			vbi_event_handler_register(vbi, VBI_EVENT_TTX_PAGE, ev_handler, NULL);
			ttx_tx_init(&tx, vbi);
			srch = NULL;
			layout = 0;
		} else if (c == 'Y') {
			layout = atoi(line + 1);
		} else if (c == 'P') {
			int pgno, subno, occ, off = 0;
			sscanf(line + 1, "%x %x %d %n", &pgno, &subno, &occ, &off);
			char *custom = line + 1 + off;
			custom[strcspn(custom, "\n")] = 0;
			send_page(pgno, subno, occ, *custom ? custom : NULL);
		} else if (c == 'N') {
			int pgno, subno, casefold = 0, regexp = 0, n, i;
			char pat[128] = "";
			uint16_t upat[128];
			n = sscanf(line + 1, "%x %x %127s %d %d", &pgno, &subno, pat, &casefold, &regexp);
			if (n < 3) strcpy(pat, PATTERN);
			for (i = 0; pat[i]; i++) upat[i] = (uint8_t) (pat[i] == '_' ? ' ' : pat[i]);
			upat[i] = 0;
			if (srch) vbi_search_delete(srch);
			srch = vbi_search_new(vbi, pgno, subno, upat, casefold, regexp, NULL);
			printf("{\"id\":\"%s\",\"new\":%d}\n", cur_id, srch != NULL);
		} else if (c == 'S') {
			search_next(atoi(line + 1));
		} else if (c == 'G') {
			int pgno, subno;
			sscanf(line + 1, "%x %x", &pgno, &subno);
			cur_mag = (pgno >> 8) & 7;
			if (!cur_mag) cur_mag = 8;
			ttx_send_header(&tx, pgno, subno, TX_C4_ERASE, 0);
		} else if (c == 'W') {
			int row, off = 0, i;
			uint8_t codes[40], pkt[42];
			sscanf(line + 1, "%d %n", &row, &off);
			const char *h = line + 1 + off;
			for (i = 0; i < 40; i++) {
				if (h[0] > ' ' && h[1] > ' ') {
					codes[i] = hexv(h[0]) * 16 + hexv(h[1]);
					h += 2;
				} else
					codes[i] = 0x20;     /* short line: blank */
			}
			ttx_mk_row(pkt, cur_mag, row, codes);
			ttx_tx_send(&tx, pkt);
		} else if (c == 'F') {
			ttx_send_filler(&tx, cur_mag);
		} else if (c == 'D') {
			printf("{\"id\":\"%s\",\"done\":true}\n", cur_id);
		} else if (c == 'I') {
			sscanf(line + 1, "%63s", cur_id);
		} else if (c == 'M') {
			int pgno, subno, casefold = 0, regexp = 0, off = 0, n = 0;
			uint16_t upat[128];
			const char *h;
			sscanf(line + 1, "%x %x %d %d %n", &pgno, &subno, &casefold, &regexp, &off);
			for (h = line + 1 + off; n < 127 && h[0] > ' ' && h[1] > ' ' && h[2] > ' ' && h[3] > ' '; h += 4)
				upat[n++] = hexv(h[0]) << 12 | hexv(h[1]) << 8 | hexv(h[2]) << 4 | hexv(h[3]);
			upat[n] = 0;
			if (srch) vbi_search_delete(srch);
			srch = vbi_search_new(vbi, pgno, subno, upat, casefold, regexp, NULL);
			printf("{\"id\":\"%s\",\"new\":%d}\n", cur_id, srch != NULL);
		} else if (c == 'L') {
			int dir = 0, max = 0;
			sscanf(line + 1, "%d %d", &dir, &max);
			while (srch && max-- > 0 && search_next(dir) == VBI_SEARCH_SUCCESS)
				;
		} else if (c == 'E') {
			if (srch) vbi_search_delete(srch);
			srch = NULL;
			vbi_decoder_delete(vbi);
			vbi = NULL;
			printf("{\"id\":\"%s\",\"end\":true}\n", cur_id);
		}
	}
	return 0;
}
