/* Executor for TtxEvents behaviours (C11): performs registrations (both API generations) at top
 * level and from inside running callbacks exactly where the behaviour says, raises events with
 * vbi_send_event() and through real Teletext decoding, and prints the callback log, the enabled
 * service mask and the list length after every top-level step.  No expectation lives here.
 *
 * stdin:  R                            fresh decoder
 *         O reg|add fn ud mask         top-level call (mask: bit0 ttx, bit1 net, bit2 cap)
 *         C k reg|add fn ud mask       script: call made from inside the k-th callback of the next raise
 *         X type                       vbi_send_event (type bit as above)
 *         T pgno                       transmit one Teletext page through vbi_decode
 */
#include <stdio.h>
#include <stdlib.h>
#include <string.h>
#include "config.h"
#include "src/vbi.h"
#include "ttx_tx.h"

static vbi_decoder *vbi;
static ttx_tx tx;
static struct { int k, add, fn, ud, mask; } script[32];
static int n_script, n_calls;
static struct { int fn, ud, type; } calls[64];

/* the real event type the abstract type "net" (= an event type other than TTX_PAGE) stands for in this behaviour; command M */
static int net_real = VBI_EVENT_NETWORK;
static int real_mask(int m)
{
	return ((m & 1) ? VBI_EVENT_TTX_PAGE : 0) | ((m & 2) ? net_real : 0) | ((m & 4) ? (VBI_EVENT_CAPTION & ~net_real) : 0);
}
static void h1(vbi_event *ev, void *ud);
static void h2(vbi_event *ev, void *ud);
static void h3(vbi_event *ev, void *ud);
static vbi_event_handler FN[4] = { NULL, h1, h2, h3 };

static void do_op(int add, int fn, int ud, int mask)
{
	if (add) vbi_event_handler_add(vbi, real_mask(mask), FN[fn], (void *) (long) ud);
	else vbi_event_handler_register(vbi, real_mask(mask), FN[fn], (void *) (long) ud);
}

static void common(int fn, vbi_event *ev, void *ud)
{
	int i, me = ++n_calls;
	if (me < 64) { calls[me - 1].fn = fn; calls[me - 1].ud = (int) (long) ud; calls[me - 1].type = ev->type; }
	for (i = 0; i < n_script; i++)
		if (script[i].k == me)
			do_op(script[i].add, script[i].fn, script[i].ud, script[i].mask);
}
static void h1(vbi_event *ev, void *ud) { common(1, ev, ud); }
static void h2(vbi_event *ev, void *ud) { common(2, ev, ud); }
static void h3(vbi_event *ev, void *ud) { common(3, ev, ud); }

static void report(const char *extra)
{
	struct event_handler *eh;
	int n = 0, i, em = vbi->event_mask;
	for (eh = vbi->handlers; eh; eh = eh->next) n++;
	printf("{\"calls\":[");
	for (i = 0; i < n_calls && i < 64; i++) printf("%s[%d,%d]", i ? "," : "", calls[i].fn, calls[i].ud);
	printf("],\"em\":%d,\"n\":%d%s}\n", ((em & VBI_EVENT_TTX_PAGE) ? 1 : 0) | ((em & net_real) ? 2 : 0)
	       | ((em & VBI_EVENT_CAPTION & ~net_real) ? 4 : 0), n, extra);
}

int main(void)
{
	char line[256], kind[16];
	setvbuf(stdout, NULL, _IOFBF, 1 << 16);
	while (fgets(line, sizeof line, stdin)) {
		int a, b, c, d;
		switch (line[0]) {
		case 'R':
			if (vbi) vbi_decoder_delete(vbi);
			vbi = vbi_decoder_new();
			ttx_tx_init(&tx, vbi);
			n_script = 0;
			net_real = VBI_EVENT_NETWORK;
			printf("{\"reset\":1}\n");
			break;
		case 'M':        /* M <hex>: real event type of the abstract type "net" until the next reset (no output line) */
			sscanf(line + 1, "%x", &a);
			net_real = a;
			break;
		case 'O':
			sscanf(line + 1, "%15s %d %d %d", kind, &a, &b, &c);
			n_calls = 0;
			do_op(kind[0] == 'a', a, b, c);
			report("");
			break;
		case 'C':
			sscanf(line + 1, "%d %15s %d %d %d", &a, kind, &b, &c, &d);
			if (n_script < 32) {
				script[n_script].k = a; script[n_script].add = kind[0] == 'a';
				script[n_script].fn = b; script[n_script].ud = c; script[n_script].mask = d;
				n_script++;
			}
			break;
		case 'X': {
			vbi_event ev;
			sscanf(line + 1, "%d", &a);
			memset(&ev, 0, sizeof ev);
			ev.type = real_mask(a);
			n_calls = 0;
			vbi_send_event(vbi, &ev);
			n_script = 0;
			report("");
			break;
		}
		case 'H':        /* a page whose transmission runs across the following API calls: header and first row */
			sscanf(line + 1, "%x", &a);
			n_calls = 0; n_script = 0;
			ttx_send_header(&tx, a, 0, TX_C4_ERASE, 0);
			ttx_send_text_row(&tx, ((a >> 8) & 7) ? ((a >> 8) & 7) : 8, 1, "page across calls");
			report("");
			break;
		case 'E': {      /* ... its last row and the terminating header */
			char extra[64];
			int mag;
			sscanf(line + 1, "%x", &a);
			mag = (a >> 8) & 7; if (!mag) mag = 8;
			n_calls = 0; n_script = 0;
			ttx_send_text_row(&tx, mag, 2, "second row");
			ttx_send_filler(&tx, mag);
			snprintf(extra, sizeof extra, ",\"cached\":%d", vbi_is_cached(vbi, a, VBI_ANY_SUBNO));
			report(extra);
			break;
		}
		case 'T': {
			char extra[64];
			int mag;
			sscanf(line + 1, "%x", &a);
			mag = (a >> 8) & 7; if (!mag) mag = 8;
			n_calls = 0; n_script = 0;
			ttx_send_header(&tx, a, 0, TX_C4_ERASE, 0);
			ttx_send_text_row(&tx, mag, 1, "acquisition probe");
			ttx_send_filler(&tx, mag);
			snprintf(extra, sizeof extra, ",\"cached\":%d", vbi_is_cached(vbi, a, VBI_ANY_SUBNO));
			report(extra);
			break;
		}
		}
	}
	if (vbi) vbi_decoder_delete(vbi);
	return 0;
}
