/* Executor for RawDecoder behaviours (C04): performs the API calls of both raw decoder interface
 * generations (vbi_raw_decoder_* of libzvbi 0.2 in decoder.h, vbi3_raw_decoder_* in raw_decoder.h),
 * renders frames with the library's own reference transmitter (_vbi_raw_vbi_image /
 * _vbi_raw_video_image, src/io-sim.h), decodes them and prints what is observable: returned service
 * sets, sliced records, the bytes behind them, the decoder's service/job/pattern state, and what the
 * old and the new bit slicer make of every transmitted line on their own.
 * No expectation and no second decoder lives here.
 *
 * stdin (numbers decimal, sets and ids hex):
 *   R                                               drop the decoder            -> {"reset":1}
 *   T                                               the library's service table and pixel formats
 *   N api fmt rate bpl scanning s0 c0 s1 c1 il sy   create a decoder (api new|old)
 *   A set strict                                    add services
 *   M set                                           remove services
 *   Z s0 c0 s1 c1 il sy strict                      new: set_sampling_par, old: resize (start, count)
 *   X                                               reset
 *   F off flags maxl t0 t1 n {line:id:hex}*n        render a frame (t0,t1: first line really sampled per
 *                                                   field; flags bit 0: fields swapped), decode, slice
 */
#define _GNU_SOURCE
#include <stdio.h>
#include <stdlib.h>
#include <string.h>
#include "config.h"
#include "src/misc.h"
#include "src/decoder.h"
#include "src/sampling_par.h"
#include "src/raw_decoder.h"
#include "src/bit_slicer.h"
#include "src/io-sim.h"

static struct {
	int have, is_old;
	vbi_raw_decoder u;		/* old interface: the decoder; both: the caller's sampling parameters */
	vbi3_raw_decoder *rd3;
} D;

static uint32_t rnd_state = 1;
static unsigned rnd(void) { rnd_state = rnd_state * 1103515245u + 12345u; return (rnd_state >> 16) & 0xFFFF; }

static unsigned bpp_of(int fmt) { return VBI_PIXFMT_BPP(fmt); }
static int is_yuv(int fmt) { return fmt >= VBI_PIXFMT_YUV420 && fmt <= VBI_PIXFMT_VYUY; }

static const _vbi_service_par *find_par(unsigned id)
{
	const _vbi_service_par *p;
	for (p = _vbi_service_table; p->id; ++p)
		if (p->id == id) return p;
	for (p = _vbi_service_table; p->id; ++p)
		if (p->id & id) return p;
	return NULL;
}

static int hex2bin(const char *h, uint8_t *out, int max)
{
	int n = 0;
	while (h[0] && h[1] && n < max) {
		unsigned v;
		if (sscanf(h, "%2x", &v) != 1) break;
		out[n++] = v; h += 2;
	}
	return n;
}

static void puthex(const uint8_t *p, int n)
{
	int i;
	for (i = 0; i < n; ++i) printf("%02x", p[i]);
}

static vbi3_raw_decoder *rd3_of(void)
{
	if (!D.have) return NULL;
	return D.is_old ? (vbi3_raw_decoder *) D.u.pattern : D.rd3;
}

static void drop(void)
{
	if (!D.have) return;
	if (D.is_old) vbi_raw_decoder_destroy(&D.u);
	else vbi3_raw_decoder_delete(D.rd3);
	D.have = 0; D.rd3 = NULL;
}

static void print_state(void)
{
	vbi3_raw_decoder *rd = rd3_of();
	unsigned i, k, rows;
	if (!rd) { printf("\"st\":null"); return; }
	rows = rd->sampling.count[0] + rd->sampling.count[1];
	printf("\"st\":{\"svc\":%u,\"jobs\":[", rd->services);
	for (i = 0; i < rd->n_jobs; ++i) printf("%s%u", i ? "," : "", rd->jobs[i].id);
	printf("],\"rj\":%d,\"rows\":%u,\"pat\":", rd->readjust, rows);
	if (!rd->pattern) printf("null");
	else {
		printf("[");
		for (i = 0; i < rows; ++i) {
			printf("%s[", i ? "," : "");
			for (k = 0; k < _VBI3_RAW_DECODER_MAX_WAYS; ++k)
				printf("%s%d", k ? "," : "", rd->pattern[i * _VBI3_RAW_DECODER_MAX_WAYS + k]);
			printf("]");
		}
		printf("]");
	}
	printf(",\"sp\":[%d,%d,%d,%d,%d,%d,%d]}", rd->sampling.scanning, rd->sampling.start[0], rd->sampling.count[0],
	       rd->sampling.start[1], rd->sampling.count[1], rd->sampling.interlaced, rd->sampling.synchronous);
}

static void cmd_N(char *a)
{
	char api[8]; int fmt, rate, bpl, scanning, s0, c0, s1, c1, il, sy;
	if (sscanf(a, "%7s %d %d %d %d %d %d %d %d %d %d", api, &fmt, &rate, &bpl, &scanning, &s0, &c0, &s1, &c1, &il, &sy) != 11) {
		printf("{\"err\":\"args\"}\n"); return;
	}
	drop();
	D.is_old = !strcmp(api, "old");
	if (D.is_old) {
		vbi_raw_decoder_init(&D.u);
		D.have = 1;
	} else
		memset(&D.u, 0, sizeof D.u);
	D.u.scanning = scanning; D.u.sampling_format = fmt; D.u.sampling_rate = rate; D.u.bytes_per_line = bpl;
	D.u.offset = 0; D.u.start[0] = s0; D.u.count[0] = c0; D.u.start[1] = s1; D.u.count[1] = c1;
	D.u.interlaced = il; D.u.synchronous = sy;
	if (!D.is_old) {
		D.rd3 = vbi3_raw_decoder_new((vbi_sampling_par *) &D.u);
		D.have = D.rd3 != NULL;
	}
	printf("{\"ok\":%d,", D.have); print_state(); printf("}\n");
}

static void cmd_A(char *a)
{
	unsigned set = 0; int strict = 0;
	if (!D.have || sscanf(a, "%x %d", &set, &strict) != 2) { printf("{\"err\":\"args\"}\n"); return; }
	set = D.is_old ? vbi_raw_decoder_add_services(&D.u, set, strict) : vbi3_raw_decoder_add_services(D.rd3, set, strict);
	printf("{\"set\":%u,", set); print_state(); printf("}\n");
}

static void cmd_M(char *a)
{
	unsigned set = 0;
	if (!D.have || sscanf(a, "%x", &set) != 1) { printf("{\"err\":\"args\"}\n"); return; }
	set = D.is_old ? vbi_raw_decoder_remove_services(&D.u, set) : vbi3_raw_decoder_remove_services(D.rd3, set);
	printf("{\"set\":%u,", set); print_state(); printf("}\n");
}

static void cmd_Z(char *a)
{
	int s0, c0, s1, c1, il, sy, strict; unsigned set;
	if (!D.have || sscanf(a, "%d %d %d %d %d %d %d", &s0, &c0, &s1, &c1, &il, &sy, &strict) != 7) { printf("{\"err\":\"args\"}\n"); return; }
	if (D.is_old) {
		int st[2]; unsigned ct[2];
		st[0] = s0; st[1] = s1; ct[0] = c0; ct[1] = c1;
		vbi_raw_decoder_resize(&D.u, st, ct);
		set = vbi3_raw_decoder_services(rd3_of());
	} else {
		D.u.start[0] = s0; D.u.count[0] = c0; D.u.start[1] = s1; D.u.count[1] = c1;
		D.u.interlaced = il; D.u.synchronous = sy;
		set = vbi3_raw_decoder_set_sampling_par(D.rd3, (vbi_sampling_par *) &D.u, strict);
	}
	printf("{\"set\":%u,", set); print_state(); printf("}\n");
}

static void cmd_X(void)
{
	if (!D.have) { printf("{\"err\":\"no decoder\"}\n"); return; }
	if (D.is_old) vbi_raw_decoder_reset(&D.u); else vbi3_raw_decoder_reset(D.rd3);
	printf("{\"set\":%u,", vbi3_raw_decoder_services(rd3_of())); print_state(); printf("}\n");
}

/* where the transmitter puts ITU-R line `line` (the storage convention of io-sim.c signal_u8) */
static int row_of(const vbi_raw_decoder *tx, unsigned line, int swap)
{
	unsigned k; int second;
	if (tx->start[1] && line >= (unsigned) tx->start[1]) { k = line - tx->start[1]; second = 1; }
	else { k = line - tx->start[0]; second = 0; }
	if (tx->interlaced) return k * 2 + (second ^ swap);
	return (second ^ swap) ? k + tx->count[0] : k;
}

#define MAXL 64
static void cmd_F(char *a)
{
	int off, maxl, t0, t1, n, i, used = 0, k, rows, fmt, spl, r = -1, valid;
	unsigned flags, outn;
	vbi_sliced sl[MAXL], *out, *shadow; vbi_raw_decoder tx; uint8_t *img; size_t size;
	if (!D.have) { printf("{\"err\":\"no decoder\"}\n"); return; }
	if (sscanf(a, "%d %u %d %d %d %d%n", &off, &flags, &maxl, &t0, &t1, &n, &used) < 6 || n > MAXL) { printf("{\"err\":\"args\"}\n"); return; }
	a += used;
	memset(sl, 0, sizeof sl);
	for (i = 0; i < n; ++i) {
		unsigned line, id; char hex[200] = "";
		if (sscanf(a, " %u:%x:%199s%n", &line, &id, hex, &k) < 2) { printf("{\"err\":\"line\"}\n"); return; }
		a += k;
		sl[i].line = line; sl[i].id = id;
		hex2bin(hex, sl[i].data, sizeof sl[i].data);
	}
	tx = D.u;
	tx.offset = off; tx.start[0] = t0; tx.start[1] = t1;
	fmt = tx.sampling_format;
	spl = tx.bytes_per_line / bpp_of(fmt);
	rows = tx.count[0] + tx.count[1];
	size = (size_t) (rows > 0 ? rows : 1) * tx.bytes_per_line;
	img = malloc(size);
	valid = _vbi_sampling_par_valid_log((vbi_sampling_par *) &tx, NULL);
	if (!valid) {
		memset(img, 0, size);	/* nothing can be transmitted */
	} else if (fmt == VBI_PIXFMT_YUV420) {
		if (!_vbi_raw_vbi_image(img, size, (vbi_sampling_par *) &tx, 0, 0, flags, sl, n)) { printf("{\"genfail\":1}\n"); free(img); return; }
	} else {
		size_t j;
		for (j = 0; j < size; ++j) img[j] = rnd();
		if (!_vbi_raw_video_image(img, size, (vbi_sampling_par *) &tx, 0, 0, 0, is_yuv(fmt) ? 0xFF : 0xFF00, flags, sl, n)) {
			printf("{\"genfail\":1}\n"); free(img); return;
		}
	}
	if (D.is_old) maxl = D.u.count[0] + D.u.count[1];
	outn = maxl + 2;
	out = malloc(outn * sizeof *out);
	shadow = malloc(outn * sizeof *out);
	for (i = 0; i < (int) (outn * sizeof *out); ++i) ((uint8_t *) out)[i] = rnd();
	memcpy(shadow, out, outn * sizeof *out);
	fflush(stdout);
	if (D.is_old) r = vbi_raw_decode(&D.u, img, out);
	else r = vbi3_raw_decoder_decode(D.rd3, out, maxl, img);
	printf("{\"n\":%d,\"maxl\":%d,\"rec\":[", r, maxl);
	for (i = 0; i < r && i < maxl; ++i) {
		unsigned pb = (vbi_sliced_payload_bits(out[i].id) + 7) / 8;
		if (pb > sizeof out[i].data) pb = sizeof out[i].data;
		printf("%s{\"id\":%u,\"line\":%u,\"data\":\"", i ? "," : "", out[i].id, out[i].line);
		puthex(out[i].data, pb);
		/* bytes of the record behind the payload must be untouched */
		printf("\",\"tail\":%d,\"org\":[", !memcmp(out[i].data + pb, shadow[i].data + pb, sizeof out[i].data - pb));
		/* which rows (in the decoder's row order) give exactly this record when sliced on their own with the record's service */
		{
			const _vbi_service_par *par = find_par(out[i].id);
			int row, first = 1, c0 = tx.count[0], nacc = 0, acc[MAXL], dif[MAXL];
			for (row = 0; valid && par && row < rows; ++row) {
				int phys = tx.interlaced ? (row < c0 ? 2 * row : 2 * (row - c0) + 1) : row;
				vbi3_bit_slicer s3; uint8_t b[64];
				memset(b, 0, sizeof b);
				_vbi3_bit_slicer_init(&s3);
				if (vbi3_bit_slicer_set_params(&s3, fmt, tx.sampling_rate, 0, spl,
							       par->cri_frc >> par->frc_bits, par->cri_frc_mask >> par->frc_bits,
							       par->cri_bits, par->cri_rate, ~0u,
							       par->cri_frc & ((1U << par->frc_bits) - 1), par->frc_bits,
							       par->payload, par->bit_rate, (vbi3_modulation) par->modulation)
				    && vbi3_bit_slicer_slice(&s3, b, sizeof b, img + (size_t) phys * tx.bytes_per_line)) {
					if (nacc < MAXL) {	/* accepted as this service at all: row, bytes that differ from the record */
						unsigned k;
						acc[nacc] = row; dif[nacc] = 0;
						for (k = 0; k < pb; ++k) dif[nacc] += b[k] != out[i].data[k];
						++nacc;
					}
					if (!memcmp(b, out[i].data, pb)) {
						printf("%s%d", first ? "" : ",", row);
						first = 0;
					}
				}
			}
			printf("],\"acc\":[");
			for (row = 0; row < nacc; ++row) printf("%s[%d,%d]", row ? "," : "", acc[row], dif[row]);
		}
		printf("]}");
	}
	printf("],\"rest\":%d,\"bs\":[", (r >= 0 && (unsigned) r <= outn) ? !memcmp(out + r, shadow + r, (outn - r) * sizeof *out) : 0);
	/* every transmitted line through the two bit slicers on their own */
	for (i = 0; valid && i < n; ++i) {
		const _vbi_service_par *par = find_par(sl[i].id);
		uint8_t *rawrow = img + (size_t) row_of(&tx, sl[i].line, flags & 1) * tx.bytes_per_line;
		uint8_t b1[64], b2[64]; int r1, r2; unsigned pb;
		vbi_bit_slicer o; vbi3_bit_slicer s3;
		if (!par) continue;
		pb = (par->payload + 7) / 8;
		memset(b1, 0, sizeof b1); memset(b2, 0, sizeof b2);
		vbi_bit_slicer_init(&o, spl, tx.sampling_rate, par->cri_rate, par->bit_rate, par->cri_frc, par->cri_frc_mask,
				    par->cri_bits, par->frc_bits, par->payload, par->modulation, fmt);
		r1 = vbi_bit_slice(&o, rawrow, b1);
		_vbi3_bit_slicer_init(&s3);
		r2 = vbi3_bit_slicer_set_params(&s3, fmt, tx.sampling_rate, 0, spl,
						par->cri_frc >> par->frc_bits, par->cri_frc_mask >> par->frc_bits,
						par->cri_bits, par->cri_rate, ~0u,
						par->cri_frc & ((1U << par->frc_bits) - 1), par->frc_bits,
						par->payload, par->bit_rate, (vbi3_modulation) par->modulation);
		if (r2) r2 = vbi3_bit_slicer_slice(&s3, b2, sizeof b2, rawrow);
		printf("%s{\"line\":%u,\"old\":", i ? "," : "", sl[i].line);
		if (r1) { printf("\""); puthex(b1, pb); printf("\""); } else printf("null");
		printf(",\"new\":");
		if (r2) { printf("\""); puthex(b2, pb); printf("\""); } else printf("null");
		printf("}");
	}
	printf("],"); print_state(); printf("}\n");
	free(out); free(shadow); free(img);
}

static void cmd_T(void)
{
	const _vbi_service_par *p; int f, first = 1;
	printf("{\"sliced_size\":%u,\"ways\":%d,\"max_jobs\":%d,\"services\":[", (unsigned) sizeof(vbi_sliced),
	       _VBI3_RAW_DECODER_MAX_WAYS, _VBI3_RAW_DECODER_MAX_JOBS);
	for (p = _vbi_service_table; p->id; ++p) {
		printf("%s{\"id\":%u,\"label\":\"%s\",\"std\":%d,\"first\":[%u,%u],\"last\":[%u,%u],\"offset\":%u,\"cri_rate\":%u,"
		       "\"bit_rate\":%u,\"cri_frc\":%u,\"mask\":%u,\"cri_bits\":%u,\"frc_bits\":%u,\"payload\":%u,\"mod\":%d,\"flags\":%d}",
		       first ? "" : ",", p->id, p->label, (p->videostd_set & VBI_VIDEOSTD_SET_525_60) ? 525 : 625,
		       p->first[0], p->first[1], p->last[0], p->last[1], p->offset, p->cri_rate, p->bit_rate, p->cri_frc,
		       p->cri_frc_mask, p->cri_bits, p->frc_bits, p->payload, (int) p->modulation, (int) p->flags);
		first = 0;
	}
	printf("],\"formats\":[");
	first = 1;
	for (f = 0; f < VBI_MAX_PIXFMTS; ++f) {
		if (!(VBI_PIXFMT_SET_ALL & VBI_PIXFMT_SET(f))) continue;
		printf("%s{\"fmt\":%d,\"bpp\":%d,\"yuv\":%d}", first ? "" : ",", f, (int) VBI_PIXFMT_BPP(f), is_yuv(f));
		first = 0;
	}
	printf("]}\n");
}

int main(void)
{
	static char line[32768];
	setvbuf(stdout, NULL, _IOFBF, 1 << 16);
	while (fgets(line, sizeof line, stdin)) {
		char *a = line + 1;
		switch (line[0]) {
		case 'R': drop(); rnd_state = 1; printf("{\"reset\":1}\n"); break;
		case 'T': cmd_T(); break;
		case 'N': cmd_N(a); break;
		case 'A': cmd_A(a); break;
		case 'M': cmd_M(a); break;
		case 'Z': cmd_Z(a); break;
		case 'X': cmd_X(); break;
		case 'F': cmd_F(a); break;
		default: break;
		}
		fflush(stdout);
	}
	drop();
	return 0;
}
