/* Encoders for Teletext packet 8/30 format 1 and 2, written from EN 300 706 section 9.8.1 / 9.8.2
 * and EN 300 231 section 8.2.1 (bit positions as transmitted).  Only encoding knowledge. */
#ifndef ENC830_H
#define ENC830_H
#include <stdint.h>
#include <string.h>
#include <stdlib.h>
#include "src/hamm.h"

static inline unsigned e830_rev8(unsigned c)
{
	unsigned r = 0, i;
	for (i = 0; i < 8; i++) if (c & (1u << i)) r |= 0x80u >> i;
	return r;
}

/* common part: magazine 8 packet 30, designation code, initial page 100/3F7F, status display */
static inline void e830_frame(uint8_t p[42], int designation)
{
	static const char status[21] = "VERIF STATUS DISPLAY";
	int i;
	p[0] = vbi_ham8(0 | ((30 & 1) << 3));	/* magazine 8 = 0, packet 30 */
	p[1] = vbi_ham8(30 >> 1);
	p[2] = vbi_ham8(designation);
	/* initial page: units, tens, S1, S2+M1, S3, S4+M2M3  (page 100, subcode 3F7F, magazine 1) */
	p[3] = vbi_ham8(0); p[4] = vbi_ham8(0);
	p[5] = vbi_ham8(0xF); p[6] = vbi_ham8(0x7 | 0x8);	/* M1 = 1 -> magazine 1 */
	p[7] = vbi_ham8(0xF); p[8] = vbi_ham8(0x3);
	for (i = 0; i < 20; i++)
		p[22 + i] = vbi_par8((uint8_t) status[i]);
}

/* format 1: NI 16 bits (transmitted msb first = bit reversed in the byte), time offset code,
 * MJD 5 BCD digits each +1, UTC 6 BCD digits each +1.  lto_half_hours: signed, half hours east */
static inline void
enc_8301(uint8_t p[42], unsigned cni, unsigned mjd_bcd, unsigned utc_bcd, int lto_half_hours)
{
	memset(p, 0, 42);
	e830_frame(p, 0);
	p[9]  = e830_rev8(cni >> 8);
	p[10] = e830_rev8(cni & 0xFF);
	/* bits 2..6: offset magnitude in half hours, bit 7 (0x40): sign (1 = west / negative), bit 1 and 8 set */
	p[11] = ((abs(lto_half_hours) & 0x1F) << 1) | (lto_half_hours < 0 ? 0x40 : 0) | 0x81;
	mjd_bcd += 0x11111;
	p[12] = mjd_bcd >> 16; p[13] = mjd_bcd >> 8; p[14] = mjd_bcd;
	utc_bcd += 0x111111;
	p[15] = utc_bcd >> 16; p[16] = utc_bcd >> 8; p[17] = utc_bcd;
	p[18] = p[19] = p[20] = p[21] = 0x15;	/* reserved */
}

/* format 2: 13 Hamming 8/4 protected nibbles, each nibble transmitted msb first */
static inline void
enc_8302(uint8_t p[42], unsigned cni, unsigned pil, unsigned lci, unsigned luf, unsigned prf,
	 unsigned pcs, unsigned mi, unsigned pty)
{
	unsigned n[13], i;
	memset(p, 0, 42);
	e830_frame(p, 2);
	n[0]  = ((lci << 2) & 0xC) | ((luf << 1) & 2) | (prf & 1);
	n[1]  = ((pcs << 2) & 0xC) | ((mi << 1) & 2) | 0;
	n[2]  = (cni >> 12) & 0xF;			/* country bits 1-4 */
	n[3]  = (((cni >> 6) << 2) & 0xC) | ((pil >> 18) & 3);
	n[4]  = (pil >> 14) & 0xF;
	n[5]  = (pil >> 10) & 0xF;
	n[6]  = (pil >> 6) & 0xF;
	n[7]  = (pil >> 2) & 0xF;
	n[8]  = ((pil << 2) & 0xC) | ((cni >> 10) & 3);
	n[9]  = (((cni >> 8) << 2) & 0xC) | ((cni >> 4) & 3);
	n[10] = cni & 0xF;
	n[11] = (pty >> 4) & 0xF;
	n[12] = pty & 0xF;
	for (i = 0; i < 13; i++)
		p[9 + i] = vbi_ham8(e830_rev8(n[i]) >> 4);
}
#endif
