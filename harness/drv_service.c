/* Executor for ServiceDecoder histories (C01): runs one history of sliced-line frames and read-side
 * API calls against a real vbi_decoder under ASan/UBSan/LSan.  It contains no expectations and no
 * decoding logic: it calls the library and prints what is observable (event counts, results of the
 * read-side calls, allocator counters, the cache listing).  The monitors are the sanitizers, the
 * watchdog (alarm per command) and the allocation counters printed here and judged by checks/c01.py.
 *
 * stdin, one command per line (numbers hex unless noted):
 *   R [fill]                   fresh decoder; the allocation counter is sampled before vbi_decoder_new; fill byte (hex) for
 *                              the stack / page buffers (default 0)
 *   D dt n {id line hexdata}*n one frame of n sliced lines; dt: 0 = +0.04 s, 1 = +0, 2 = -1 s, 3 = +10 s
 *   F pgno subno level rows nav   vbi_fetch_vt_page into the page slot (level 0..3 = 1, 1.5, 2.5, 3.5)
 *   C ch reset                 vbi_fetch_cc_page into the page slot
 *   U                          vbi_unref_page on the slot
 *   K                          vbi_resolve_link on every cell of the slot page + vbi_resolve_home
 *   E module                   export the slot page to memory (vbi_export_mem small/large buffer, vbi_export_alloc)
 *   W reg                      render a region of the slot page (reg 0 whole, 1 first row, 2 last column, 3 inner, 4 strided)
 *   P                          vbi_print_page_region of the slot page
 *   Y pgno                     vbi_classify_page
 *   T pgno subno               vbi_page_title
 *   S pgno subno casefold regexp u16,u16,...   vbi_search_new (replaces the context)
 *   N dir(dec)                 vbi_search_next
 *   Q                          vbi_search_delete
 *   H                          vbi_channel_switched
 *   G fn ud mask               vbi_event_handler_register (fn 0: counting handler, 1: handler calling back into the read API)
 *   g fn ud                    vbi_event_handler_unregister
 *   V level(dec)               vbi_teletext_set_level        Z region(dec)   vbi_teletext_set_default_region
 *   L                          list of cached pages (internal audit through cache-priv.h)
 *   M                          allocation counter
 *   X                          unref / delete everything, allocation counter, recoverable leak check
 *   e1 cni mjd utc lto / e2 cni pil / ev cni pil    encode a packet 8/30 format 1 / 2 / a VPS line, print it in hex (transmitter side only)
 */
#include <stdio.h>
#include <stdlib.h>
#include <string.h>
#include <signal.h>
#include <unistd.h>
#include <sys/time.h>
#include <sanitizer/allocator_interface.h>
#include <sanitizer/lsan_interface.h>
#include <sanitizer/common_interface_defs.h>
#include "config.h"
#include "src/vbi.h"
#include "src/export.h"
#include "src/exp-gfx.h"
#include "src/exp-txt.h"
#include "src/search.h"
#include "src/vps.h"
#ifndef NO_AUDIT
#include "src/cache-priv.h"
#endif
#include "enc830.h"

static vbi_decoder *vbi;
static vbi_search *srch;
static vbi_page slot;
static int slot_kind;			/* 0 empty, 1 teletext, 2 caption */
static double t;
static size_t base_alloc;
static char cur_cmd[96];
static long ncmd, nreset;
static unsigned evcount[12];
static unsigned cb_calls;
static int watchdog = 20;		/* seconds of CPU time per command */
static int fill;			/* what uninitialised stack and page buffers contain */
static char outbuf[1 << 16];

static void set_watchdog(int seconds)
{
	struct itimerval it;
	memset(&it, 0, sizeof it);
	it.it_value.tv_sec = seconds;
	setitimer(ITIMER_PROF, &it, NULL);
}

/* leaves `fill` bytes where the locals of the library functions called next will live */
static void __attribute__((noinline)) prime_stack(int c)
{
	volatile char a[1 << 17];
	memset((void *) a, c, sizeof a);
	__asm__ volatile ("" : : "r" (a) : "memory");
}

static void on_alarm(int sig)
{
	char buf[256];
	int n = snprintf(buf, sizeof buf, "\n{\"hang\":\"%.80s\",\"ncmd\":%ld}\n", cur_cmd, ncmd);
	(void) sig;
	fflush(stdout);
	if (write(1, buf, n) < 0) {}
	_exit(3);
}

/* a fatal sanitizer report or an assertion ends the process: what was answered so far must not be lost */
static void on_death(void) { fflush(stdout); }
static void on_abort(int sig) { fflush(stdout); signal(sig, SIG_DFL); raise(sig); }

static int evidx(int type)
{
	int i;
	for (i = 0; i < 12; i++)
		if (type == (1 << i)) return i;
	return 0;
}

static void h_count(vbi_event *ev, void *ud)
{
	(void) ud;
	evcount[evidx(ev->type)]++;
}

/* a handler that uses the read-side API from inside the callback, as applications do */
static void h_reent(vbi_event *ev, void *ud)
{
	static vbi_page pg;		/* vbi_page is large */
	char title[64];
	memset(&pg, fill, sizeof pg);
	vbi_subno sub = 0;
	char *lang = NULL;
	(void) ud;
	cb_calls++;
	switch (ev->type) {
	case VBI_EVENT_TTX_PAGE:
		if (vbi_fetch_vt_page(vbi, &pg, ev->ev.ttx_page.pgno, ev->ev.ttx_page.subno, VBI_WST_LEVEL_3p5, 25, 1))
			vbi_unref_page(&pg);
		vbi_page_title(vbi, ev->ev.ttx_page.pgno, ev->ev.ttx_page.subno, title);
		vbi_classify_page(vbi, ev->ev.ttx_page.pgno, &sub, &lang);
		break;
	case VBI_EVENT_CAPTION:
		if (vbi_fetch_cc_page(vbi, &pg, ev->ev.caption.pgno, 1))
			vbi_unref_page(&pg);
		break;
	default:
		vbi_classify_page(vbi, 0x100, &sub, &lang);
		if (vbi_fetch_vt_page(vbi, &pg, 0x100, VBI_ANY_SUBNO, VBI_WST_LEVEL_2p5, 25, 1))
			vbi_unref_page(&pg);
		break;
	}
}

static vbi_event_handler fns[2] = { h_count, h_reent };
static int uds[4];

static void drop_slot(void)
{
	if (slot_kind) vbi_unref_page(&slot);
	slot_kind = 0;
}

static void delete_all(void)
{
	drop_slot();
	if (srch) { vbi_search_delete(srch); srch = NULL; }
	if (vbi) { vbi_decoder_delete(vbi); vbi = NULL; }
}

static int hexval(int c) { return c <= '9' ? c - '0' : (c | 32) - 'a' + 10; }

static void cmd_decode(char *p)
{
	static vbi_sliced sl[16];
	static const double dts[4] = { 0.04, 0.0, -1.0, 10.0 };
	unsigned dt, n, i, k;
	char *e;
	dt = strtoul(p, &e, 16); p = e;
	n = strtoul(p, &e, 16); p = e;
	if (n > 16) n = 16;
	memset(sl, 0, sizeof sl);
	for (i = 0; i < n; i++) {
		sl[i].id = strtoul(p, &e, 16); p = e;
		sl[i].line = strtoul(p, &e, 16); p = e;
		while (*p == ' ') p++;
		for (k = 0; k < sizeof sl[i].data && p[0] > ' ' && p[1] > ' '; k++, p += 2)
			sl[i].data[k] = hexval(p[0]) * 16 + hexval(p[1]);
	}
	memset(evcount, 0, sizeof evcount);
	cb_calls = 0;
	t += dts[dt & 3];
	vbi_decode(vbi, sl, n, t);
	printf("{\"ev\":[");
	for (i = 0; i < 12; i++) printf("%s%u", i ? "," : "", evcount[i]);
	printf("],\"cb\":%u}\n", cb_calls);
}

static void cmd_export(const char *name)
{
	char *err = NULL;
	vbi_export *ex;
	char key[64];
	if (sscanf(name, "%63s", key) != 1) { printf("{\"export\":null}\n"); return; }
	ex = vbi_export_new(key, &err);
	if (!ex) { printf("{\"export\":\"%s\",\"new\":0}\n", key); free(err); return; }
	{
		char *small = malloc(37), *big = malloc(1 << 21);
		void *ab = NULL; size_t asz = 0;
		long r1 = vbi_export_mem(ex, small, 37, &slot);
		long r2 = vbi_export_mem(ex, big, 1 << 21, &slot);
		void *r3 = vbi_export_alloc(ex, &ab, &asz, &slot);
		printf("{\"export\":\"%s\",\"new\":1,\"small\":%ld,\"big\":%ld,\"alloc\":%ld}\n", key, r1, r2, r3 ? (long) asz : -1L);
		free(r3); free(small); free(big);
	}
	vbi_export_delete(ex);
}

static void cmd_render(int reg)
{
	int cw = slot_kind == 2 ? 16 : 12, ch = slot_kind == 2 ? 26 : 10;
	int col = 0, row = 0, w = slot.columns, h = slot.rows, stride, pad = 0;
	uint8_t *canvas;
	if (w <= 0 || h <= 0) { printf("{\"render\":%d,\"empty\":1}\n", reg); return; }
	switch (reg) {
	case 1: h = 1; break;
	case 2: col = w - 1; w = 1; break;
	case 3: col = w > 2; row = h > 2; w = w > 2 ? w - 2 : w; h = h > 2 ? h - 2 : h; break;
	case 4: pad = 64; break;
	default: break;
	}
	stride = w * cw * 4 + pad;
	/* exactly the bytes the documented region needs: any write outside is an ASan report */
	canvas = malloc((size_t) stride * h * ch - pad);
	memset(canvas, 0, (size_t) stride * h * ch - pad);
	if (slot_kind == 2)
		vbi_draw_cc_page_region(&slot, VBI_PIXFMT_RGBA32_LE, canvas, stride, col, row, w, h);
	else
		vbi_draw_vt_page_region(&slot, VBI_PIXFMT_RGBA32_LE, canvas, stride, col, row, w, h, reg & 1, !(reg & 2));
	printf("{\"render\":%d,\"w\":%d,\"h\":%d}\n", reg, w, h);
	free(canvas);
}

static void cmd_links(void)
{
	int r, c, n = 0, types = 0;
	vbi_link ld;
	for (r = 0; r < slot.rows; r++)
		for (c = 0; c < slot.columns; c++)
			if (slot.text[r * slot.columns + c].link || ((r * 7 + c) % 41) == 0) {
				memset(&ld, 0, sizeof ld);
				vbi_resolve_link(&slot, c, r, &ld);
				n++; types |= 1 << (ld.type & 15);
			}
	memset(&ld, 0, sizeof ld);
	vbi_resolve_home(&slot, &ld);
	printf("{\"links\":%d,\"types\":%d,\"home\":[%d,%d]}\n", n, types, ld.pgno, ld.subno);
}

static void cmd_print(void)
{
	char *buf = malloc(8192);
	int n1 = vbi_print_page_region(&slot, buf, 8192, "UTF-8", 1, 1, 0, 0, slot.columns, slot.rows);
	int n2 = vbi_print_page_region(&slot, buf, 50, "ISO-8859-1", 0, 1, 0, 0, slot.columns, slot.rows);
	printf("{\"print\":[%d,%d]}\n", n1, n2);
	free(buf);
}

static void cmd_list(void)
{
#ifndef NO_AUDIT
	cache_page *cp, *cp1;
	unsigned i; int first = 1;
	printf("{\"pages\":[");
	for (i = 0; i < HASH_SIZE; i++)
		FOR_ALL_NODES (cp, cp1, &vbi->ca->hash[i], hash_node)
			if (cp->network == vbi->cn) {
				printf("%s[%d,%d,%d,%u]", first ? "" : ",", cp->pgno, cp->subno, (int) cp->function, cp->ref_count); first = 0;
			}
	printf("],\"mem\":%lu,\"npages\":%u,\"cd\":%d}\n", (unsigned long) vbi->ca->memory_used, vbi->ca->n_cached_pages, vbi->chswcd);
#else
	printf("{\"pages\":null}\n");
#endif
}

int main(int argc, char **argv)
{
	static char line[1 << 13];
	if (argc > 1) watchdog = atoi(argv[1]);
	signal(SIGPROF, on_alarm);
	signal(SIGABRT, on_abort);
	__sanitizer_set_death_callback(on_death);
	setvbuf(stdout, outbuf, _IOFBF, sizeof outbuf);
	while (fgets(line, sizeof line, stdin)) {
		char c = line[0];
		char *a = line + 1;
		unsigned x = 0, y = 0, z = 0, w = 0, v = 0;
		ncmd++;
		snprintf(cur_cmd, sizeof cur_cmd, "%.60s", line);
		cur_cmd[strcspn(cur_cmd, "\n")] = 0;
		if (c == 'e') {		/* encoders (transmitter side), no decoder involved */
			uint8_t p[42]; int i, lto = 0, n = 42;
			memset(p, 0, sizeof p);
			if (line[1] == '1') { sscanf(line + 2, "%x %x %x %d", &x, &y, &z, &lto); enc_8301(p, x, y, z, lto); }
			else if (line[1] == '2') { sscanf(line + 2, "%x %x", &x, &y); enc_8302(p, x, y, 1, 0, 1, 2, 1, 0x42); }
			else {
				vbi_program_id pid;
				sscanf(line + 2, "%x %x", &x, &y);
				memset(&pid, 0, sizeof pid);
				pid.cni_type = VBI_CNI_TYPE_VPS; pid.cni = x; pid.pil = y; pid.pcs_audio = VBI_PCS_AUDIO_STEREO; pid.pty = 0x42;
				memset(p, 0xAA, 13); n = 13;
				if (!vbi_encode_vps_pdc(p, &pid)) n = 0;
			}
			printf("{\"hex\":\"");
			for (i = 0; i < n; i++) printf("%02x", p[i]);
			printf("\"}\n");
			fflush(stdout);
			continue;
		}
		if (c == 'R') {
			delete_all();
			fill = (int) strtoul(a, NULL, 16) & 0xFF;
			memset(&slot, fill, sizeof slot);
			fprintf(stderr, "@@R %ld\n", ++nreset);
			base_alloc = __sanitizer_get_current_allocated_bytes();
			vbi = vbi_decoder_new();
			t = 1000.0;
			printf("{\"reset\":1,\"base\":%lu}\n", (unsigned long) base_alloc);
			continue;
		}
		if (!vbi) continue;
		set_watchdog(watchdog);
		prime_stack(fill);
		switch (c) {
		case 'D': cmd_decode(a); break;
		case 'F': {
			static const vbi_wst_level lv[4] = { VBI_WST_LEVEL_1, VBI_WST_LEVEL_1p5, VBI_WST_LEVEL_2p5, VBI_WST_LEVEL_3p5 };
			int ok;
			sscanf(a, "%x %x %x %x %x", &x, &y, &z, &w, &v);
			drop_slot();
			memset(&slot, fill, sizeof slot);
			prime_stack(fill);
			ok = vbi_fetch_vt_page(vbi, &slot, x, y, lv[z & 3], w, v);
			if (ok) slot_kind = 1;
			printf("{\"fetch\":%d", ok);
			if (ok) {
				int k, nd = 0, nc = 0;
				for (k = 0; k < 32; k++) nd += slot.drcs[k] != NULL;
				for (k = 0; k < slot.rows * slot.columns; k++) nc += slot.text[k].unicode >= 0xF000 && slot.text[k].unicode < 0xF800;
				printf(",\"pgno\":%d,\"subno\":%d,\"rows\":%d,\"cols\":%d,\"drcs\":[%d,%d]", slot.pgno, slot.subno, slot.rows, slot.columns, nd, nc);
			}
			printf("}\n");
			break;
		}
		case 'C': {
			int ok;
			sscanf(a, "%x %x", &x, &y);
			drop_slot();
			memset(&slot, fill, sizeof slot);
			ok = vbi_fetch_cc_page(vbi, &slot, x, y);
			if (ok) slot_kind = 2;
			printf("{\"fetchcc\":%d", ok);
			if (ok) printf(",\"pgno\":%d,\"rows\":%d,\"cols\":%d", slot.pgno, slot.rows, slot.columns);
			printf("}\n");
			break;
		}
		case 'U': drop_slot(); printf("{\"unref\":1}\n"); break;
		case 'K': if (slot_kind) cmd_links(); else printf("{\"links\":null}\n"); break;
		case 'E': if (slot_kind) cmd_export(a); else printf("{\"export\":null}\n"); break;
		case 'W': if (slot_kind) cmd_render(atoi(a)); else printf("{\"render\":null}\n"); break;
		case 'P': if (slot_kind) cmd_print(); else printf("{\"print\":null}\n"); break;
		case 'Y': {
			vbi_subno sub = -1; char *lang = NULL; int ty;
			sscanf(a, "%x", &x);
			ty = vbi_classify_page(vbi, x, &sub, &lang);
			printf("{\"classify\":%d,\"sub\":%d,\"lang\":%d}\n", ty, sub, lang ? (int) strlen(lang) : -1);
			break;
		}
		case 'T': {
			char *buf = malloc(41);		/* documented minimum size */
			int ok;
			sscanf(a, "%x %x", &x, &y);
			buf[0] = 0;
			ok = vbi_page_title(vbi, x, y, buf);
			printf("{\"title\":%d,\"len\":%d}\n", ok, ok ? (int) strlen(buf) : 0);
			free(buf);
			break;
		}
		case 'S': {
			uint16_t pat[128]; int n = 0, off = 0; char *p;
			sscanf(a, "%x %x %x %x %n", &x, &y, &z, &w, &off);
			p = a + off;
			while (n < 126 && *p > ' ') { pat[n++] = strtoul(p, &p, 16); if (*p == ',') p++; }
			pat[n] = 0;
			if (srch) vbi_search_delete(srch);
			srch = vbi_search_new(vbi, x, y, pat, z, w, NULL);
			printf("{\"search_new\":%d}\n", srch != NULL);
			break;
		}
		case 'N': {
			vbi_page *pg = NULL; int r = -9;
			if (srch) r = vbi_search_next(srch, &pg, atoi(a));
			printf("{\"search\":%d", r);
			if (srch && pg && r == 1) printf(",\"pgno\":%d,\"subno\":%d", pg->pgno, pg->subno);
			printf("}\n");
			break;
		}
		case 'Q': if (srch) vbi_search_delete(srch); srch = NULL; printf("{\"search_del\":1}\n"); break;
		case 'H': vbi_channel_switched(vbi, 0); printf("{\"chsw\":1}\n"); break;
		case 'G': {
			int ok;
			sscanf(a, "%x %x %x", &x, &y, &z);
			ok = vbi_event_handler_register(vbi, z, fns[x & 1], &uds[y & 3]);
			printf("{\"register\":%d}\n", ok);
			break;
		}
		case 'g':
			sscanf(a, "%x %x", &x, &y);
			vbi_event_handler_unregister(vbi, fns[x & 1], &uds[y & 3]);
			printf("{\"unregister\":1}\n");
			break;
		case 'V': vbi_teletext_set_level(vbi, atoi(a)); printf("{\"level\":1}\n"); break;
		case 'Z': vbi_teletext_set_default_region(vbi, atoi(a)); printf("{\"region\":1}\n"); break;
		case 'L': cmd_list(); break;
		case 'M': printf("{\"alloc\":%lu}\n", (unsigned long) __sanitizer_get_current_allocated_bytes()); break;
		case 'X': {
			size_t now; int leak;
			delete_all();
			now = __sanitizer_get_current_allocated_bytes();
			fflush(stdout);
			leak = __lsan_do_recoverable_leak_check();
			printf("{\"del\":1,\"base\":%lu,\"now\":%lu,\"leak\":%d}\n", (unsigned long) base_alloc, (unsigned long) now, leak);
			fflush(stdout);
			break;
		}
		default: break;
		}
		set_watchdog(0);
	}
	delete_all();
	return 0;
}
