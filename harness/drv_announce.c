/* Executor for Announce behaviours (C13): feeds real VPS / packet 8/30 / XDS / WSS lines to
 * vbi_decode(), registers and unregisters event handlers in mid-stream and prints the events each
 * handler was handed by the step and whether the sentinel page is still cached.  No expectation lives here.
 * stdin:  R (new decoder, no handler) | T (transmit the sentinel page 150)
 *         H r|a slot TYPE|TYPE..  (vbi_event_handler_register / _add of handler <slot>; "0": _unregister / _remove)
 *         V cni pil pty pcs | 1 cni mjd utc lto | 2 cni pil lci luf prf pcs mi pty [x = two bit errors in one Hamming byte]
 *         N name | L call-letters | W b0 b1
 *         G (an empty frame whose time stamp jumps ahead by 1 s: frames were dropped) | F n (n empty frames, regular time stamps)
 */
#include <stdio.h>
#include <stdlib.h>
#include <string.h>
#include "config.h"
#include "src/vbi.h"
#include "src/vps.h"
#include "ttx_tx.h"
#include "enc830.h"

static vbi_decoder *vbi;
static ttx_tx tx;
static char evbuf[8192];
static int evn;

static void add(const char *fmt, ...)
{
	va_list ap;
	if (evn > (int) sizeof(evbuf) - 600) return;
	va_start(ap, fmt);
	evn += vsnprintf(evbuf + evn, sizeof(evbuf) - evn, fmt, ap);
	va_end(ap);
}

#define NSLOT 3
static int slot_id[NSLOT] = { 0, 1, 2 };

static void handler(vbi_event *ev, void *ud)
{
	int h = *(int *) ud;
	switch (ev->type) {
	case VBI_EVENT_NETWORK:
	case VBI_EVENT_NETWORK_ID: {
		vbi_network *n = &ev->ev.network;
		add("%s{\"h\":%d,\"t\":\"%s\",\"nuid\":%u,\"cni_vps\":%d,\"cni_8301\":%d,\"cni_8302\":%d,\"name\":\"%.20s\",\"call\":\"%.20s\"}", evn ? "," : "", h,
		    ev->type == VBI_EVENT_NETWORK ? "NETWORK" : "NETWORK_ID", n->nuid, n->cni_vps, n->cni_8301, n->cni_8302, (char *) n->name, (char *) n->call);
		break;
	}
	case VBI_EVENT_PROG_ID: {
		const vbi_program_id *p = ev->ev.prog_id;
		add("%s{\"h\":%d,\"t\":\"PROG_ID\",\"cni_type\":%d,\"cni\":%u,\"pil\":%u,\"ch\":%d,\"luf\":%d,\"mi\":%d,\"prf\":%d,\"pcs\":%d,\"pty\":%u}", evn ? "," : "", h,
		    (int) p->cni_type, p->cni, p->pil, (int) p->channel, p->luf, p->mi, p->prf, (int) p->pcs_audio, p->pty);
		break;
	}
	case VBI_EVENT_LOCAL_TIME: {
		const vbi_local_time *lt = ev->ev.local_time;
		add("%s{\"h\":%d,\"t\":\"LOCAL_TIME\",\"time\":%ld,\"east\":%d,\"east_valid\":%d}", evn ? "," : "", h, (long) lt->time, lt->seconds_east,
		    (int) lt->seconds_east_valid);
		break;
	}
	case VBI_EVENT_ASPECT: {
		vbi_aspect_ratio *r = &ev->ev.aspect;
		add("%s{\"h\":%d,\"t\":\"ASPECT\",\"first\":%d,\"last\":%d,\"ratio1000\":%d,\"film\":%d,\"subt\":%d}", evn ? "," : "", h,
		    r->first_line, r->last_line, (int) (r->ratio * 1000 + .5), r->film_mode, (int) r->open_subtitles);
		break;
	}
	default:
		break;
	}
}

/* one function per slot: the deprecated _add / _remove identify a handler by its function alone */
static void handler0(vbi_event *ev, void *ud) { handler(ev, ud); }
static void handler1(vbi_event *ev, void *ud) { handler(ev, ud); }
static void handler2(vbi_event *ev, void *ud) { handler(ev, ud); }
static vbi_event_handler slot_fn[NSLOT] = { handler0, handler1, handler2 };

static int mask_of(const char *s)
{
	static const struct { const char *n; int m; } t[] = {
		{ "NETWORK_ID", VBI_EVENT_NETWORK_ID }, { "NETWORK", VBI_EVENT_NETWORK }, { "PROG_ID", VBI_EVENT_PROG_ID },
		{ "LOCAL_TIME", VBI_EVENT_LOCAL_TIME }, { "ASPECT", VBI_EVENT_ASPECT }, { "TTX_PAGE", VBI_EVENT_TTX_PAGE },
		{ "CAPTION", VBI_EVENT_CAPTION }, { "PROG_INFO", VBI_EVENT_PROG_INFO } };
	int m = 0;
	while (*s) {
		unsigned i, n = strcspn(s, "|\n");
		for (i = 0; i < sizeof t / sizeof *t; i++)
			if (strlen(t[i].n) == n && !strncmp(s, t[i].n, n)) m |= t[i].m;
		s += n;
		if (*s) s++;
	}
	return m;
}

static void feed(vbi_sliced *s)
{
	vbi_decode(vbi, s, 1, tx.t);
	tx.t += 0.04;
}

static void report(void)
{
	printf("{\"evs\":[%s],\"cached\":%d}\n", evbuf, vbi_is_cached(vbi, 0x150, VBI_ANY_SUBNO));
	evn = 0; evbuf[0] = 0;
}

static unsigned par(unsigned c) { return vbi_par8(c & 0x7F); }

int main(void)
{
	char line[256];
	setvbuf(stdout, NULL, _IOFBF, 1 << 16);
	while (fgets(line, sizeof line, stdin)) {
		unsigned a = 0, b = 0, c = 0;
		int d = 0;
		vbi_sliced s;
		memset(&s, 0, sizeof s);
		switch (line[0]) {
		case 'R':
			if (vbi) vbi_decoder_delete(vbi);
			vbi = vbi_decoder_new();
			ttx_tx_init(&tx, vbi);
			evn = 0; evbuf[0] = 0;
			printf("{\"reset\":1}\n");
			break;
		case 'T':
			ttx_send_header(&tx, 0x150, 0, TX_C4_ERASE, 0);
			ttx_send_text_row(&tx, 1, 1, "sentinel");
			ttx_send_filler(&tx, 1);
			report();
			break;
		case 'H': {
			char api, types[200];
			int h, m;
			if (sscanf(line + 1, " %c %d %199s", &api, &h, types) != 3 || h < 0 || h >= NSLOT) break;
			m = mask_of(types);
			if (api == 'a') {
				if (m) vbi_event_handler_add(vbi, m, slot_fn[h], &slot_id[h]);
				else vbi_event_handler_remove(vbi, slot_fn[h]);
			} else {
				if (m) vbi_event_handler_register(vbi, m, slot_fn[h], &slot_id[h]);
				else vbi_event_handler_unregister(vbi, slot_fn[h], &slot_id[h]);
			}
			report();
			break;
		}
		case 'V': {
			vbi_program_id pid;
			unsigned pty = 0, pcs = 0;
			sscanf(line + 1, "%x %x %x %x", &a, &b, &pty, &pcs);
			memset(&pid, 0, sizeof pid);
			pid.cni_type = VBI_CNI_TYPE_VPS; pid.cni = a; pid.pil = b; pid.pcs_audio = (vbi_pcs_audio) pcs; pid.pty = pty;
			s.id = VBI_SLICED_VPS; s.line = 16;
			memset(s.data, 0xAA, 13);
			if (!vbi_encode_vps_pdc(s.data, &pid)) { printf("{\"evs\":[],\"encode_failed\":true}\n"); break; }
			feed(&s); report();
			break;
		}
		case '1':
			sscanf(line + 1, "%x %x %x %d", &a, &b, &c, &d);
			s.id = VBI_SLICED_TELETEXT_B; s.line = 7;
			enc_8301(s.data, a, b, c, d);
			feed(&s); report();
			break;
		case '2': {
			unsigned lci = 0, luf = 0, prf = 0, pcs = 0, mi = 0, pty = 0;
			char flag = 0;
			sscanf(line + 1, "%x %x %x %x %x %x %x %x %c", &a, &b, &lci, &luf, &prf, &pcs, &mi, &pty, &flag);
			s.id = VBI_SLICED_TELETEXT_B; s.line = 7;
			enc_8302(s.data, a, b, lci, luf, prf, pcs, mi, pty);
			if (flag == 'x') s.data[13] ^= 0x05;	/* two bit errors: not correctable by Hamming 8/4 */
			feed(&s); report();
			break;
		}
		case 'L':       /* XDS network call letters (Channel class, type 2) */
		case 'N': {
			char name[64];
			unsigned sum, i, n;
			if (sscanf(line + 1, "%63s", name) != 1) break;
			n = strlen(name);
			s.id = VBI_SLICED_CAPTION_525; s.line = 284;
			s.data[0] = par(0x05); s.data[1] = par(line[0] == 'L' ? 0x02 : 0x01); sum = 0x05 + (line[0] == 'L' ? 0x02 : 0x01);
			feed(&s);
			for (i = 0; i < n; i += 2) {
				unsigned c1 = name[i], c2 = i + 1 < n ? name[i + 1] : 0;
				s.data[0] = par(c1); s.data[1] = par(c2); sum += c1 + c2;
				feed(&s);
			}
			sum += 0x0F;
			s.data[0] = par(0x0F); s.data[1] = par((128 - (sum & 127)) & 127);
			feed(&s); report();
			break;
		}
		case 'G':       /* time stamp discontinuity */
			tx.t += 1.0;
			vbi_decode(vbi, NULL, 0, tx.t);
			tx.t += 0.04;
			report();
			break;
		case 'F':       /* frames without data, as vbi_decode() asks for */
			sscanf(line + 1, "%d", &d);
			while (d-- > 0) {
				vbi_decode(vbi, NULL, 0, tx.t);
				tx.t += 0.04;
			}
			report();
			break;
		case 'W':
			sscanf(line + 1, "%x %x", &a, &b);
			s.id = VBI_SLICED_WSS_625; s.line = 23;
			s.data[0] = a; s.data[1] = b;
			feed(&s); report();
			break;
		}
	}
	if (vbi) vbi_decoder_delete(vbi);
	return 0;
}
