/* Executor for Announce behaviours (C13): feeds real VPS / packet 8/30 / XDS / WSS lines to
 * vbi_decode() and prints the events each reception raised and whether the sentinel page is
 * still cached.  No expectation lives here.
 * stdin:  R | T (transmit the sentinel page 150) | V cni pil | 1 cni mjd utc lto | 2 cni pil
 *         N name | L call-letters | W b0 b1
 */
#include <stdio.h>
#include <stdlib.h>
#include <string.h>
#include "config.h"
#include "src/vbi.h"
#include "src/vps.h"
#include "ttx_tx.h"
#include "enc830.h"

static vbi_decoder *vbi;
static ttx_tx tx;
static char evbuf[8192];
static int evn;

static void add(const char *fmt, ...)
{
	va_list ap;
	if (evn > (int) sizeof(evbuf) - 600) return;
	va_start(ap, fmt);
	evn += vsnprintf(evbuf + evn, sizeof(evbuf) - evn, fmt, ap);
	va_end(ap);
}

static void handler(vbi_event *ev, void *ud)
{
	(void) ud;
	switch (ev->type) {
	case VBI_EVENT_NETWORK:
	case VBI_EVENT_NETWORK_ID: {
		vbi_network *n = &ev->ev.network;
		add("%s{\"t\":\"%s\",\"nuid\":%u,\"cni_vps\":%d,\"cni_8301\":%d,\"cni_8302\":%d,\"name\":\"%.20s\",\"call\":\"%.20s\"}", evn ? "," : "",
		    ev->type == VBI_EVENT_NETWORK ? "NETWORK" : "NETWORK_ID", n->nuid, n->cni_vps, n->cni_8301, n->cni_8302, (char *) n->name, (char *) n->call);
		break;
	}
	case VBI_EVENT_PROG_ID: {
		const vbi_program_id *p = ev->ev.prog_id;
		add("%s{\"t\":\"PROG_ID\",\"cni\":%u,\"pil\":%u,\"ch\":%d,\"luf\":%d,\"mi\":%d,\"prf\":%d,\"pcs\":%d,\"pty\":%u}", evn ? "," : "",
		    p->cni, p->pil, (int) p->channel, p->luf, p->mi, p->prf, (int) p->pcs_audio, p->pty);
		break;
	}
	case VBI_EVENT_LOCAL_TIME: {
		const vbi_local_time *lt = ev->ev.local_time;
		add("%s{\"t\":\"LOCAL_TIME\",\"time\":%ld,\"east\":%d}", evn ? "," : "", (long) lt->time, lt->seconds_east);
		break;
	}
	case VBI_EVENT_ASPECT: {
		vbi_aspect_ratio *r = &ev->ev.aspect;
		add("%s{\"t\":\"ASPECT\",\"first\":%d,\"last\":%d,\"ratio1000\":%d,\"film\":%d,\"subt\":%d}", evn ? "," : "",
		    r->first_line, r->last_line, (int) (r->ratio * 1000 + .5), r->film_mode, (int) r->open_subtitles);
		break;
	}
	default:
		break;
	}
}

static void feed(vbi_sliced *s)
{
	vbi_decode(vbi, s, 1, tx.t);
	tx.t += 0.04;
}

static void report(void)
{
	printf("{\"evs\":[%s],\"cached\":%d}\n", evbuf, vbi_is_cached(vbi, 0x150, VBI_ANY_SUBNO));
	evn = 0; evbuf[0] = 0;
}

static unsigned par(unsigned c) { return vbi_par8(c & 0x7F); }

int main(void)
{
	char line[256];
	setvbuf(stdout, NULL, _IOFBF, 1 << 16);
	while (fgets(line, sizeof line, stdin)) {
		unsigned a, b, c;
		int d;
		vbi_sliced s;
		memset(&s, 0, sizeof s);
		switch (line[0]) {
		case 'R':
			if (vbi) vbi_decoder_delete(vbi);
			vbi = vbi_decoder_new();
			vbi_event_handler_register(vbi, VBI_EVENT_NETWORK | VBI_EVENT_NETWORK_ID | VBI_EVENT_PROG_ID
						   | VBI_EVENT_LOCAL_TIME | VBI_EVENT_ASPECT | VBI_EVENT_TTX_PAGE
						   | VBI_EVENT_CAPTION, handler, NULL);
			ttx_tx_init(&tx, vbi);
			evn = 0; evbuf[0] = 0;
			printf("{\"reset\":1}\n");
			break;
		case 'T':
			ttx_send_header(&tx, 0x150, 0, TX_C4_ERASE, 0);
			ttx_send_text_row(&tx, 1, 1, "sentinel");
			ttx_send_filler(&tx, 1);
			report();
			break;
		case 'V': {
			vbi_program_id pid;
			sscanf(line + 1, "%x %x", &a, &b);
			memset(&pid, 0, sizeof pid);
			pid.cni_type = VBI_CNI_TYPE_VPS; pid.cni = a; pid.pil = b; pid.pcs_audio = VBI_PCS_AUDIO_STEREO; pid.pty = 0x42;
			s.id = VBI_SLICED_VPS; s.line = 16;
			memset(s.data, 0xAA, 13);
			if (!vbi_encode_vps_pdc(s.data, &pid)) { printf("{\"evs\":[],\"encode_failed\":true}\n"); break; }
			feed(&s); report();
			break;
		}
		case '1':
			sscanf(line + 1, "%x %x %x %d", &a, &b, &c, &d);
			s.id = VBI_SLICED_TELETEXT_B; s.line = 7;
			enc_8301(s.data, a, b, c, d);
			feed(&s); report();
			break;
		case '2':
			sscanf(line + 1, "%x %x", &a, &b);
			s.id = VBI_SLICED_TELETEXT_B; s.line = 7;
			enc_8302(s.data, a, b, 1, 0, 1, 2, 1, 0x42);
			feed(&s); report();
			break;
		case 'L':       /* XDS network call letters (Channel class, type 2) */
		case 'N': {
			char name[64];
			unsigned sum, i, n;
			if (sscanf(line + 1, "%63s", name) != 1) break;
			n = strlen(name);
			s.id = VBI_SLICED_CAPTION_525; s.line = 284;
			s.data[0] = par(0x05); s.data[1] = par(line[0] == 'L' ? 0x02 : 0x01); sum = 0x05 + (line[0] == 'L' ? 0x02 : 0x01);
			feed(&s);
			for (i = 0; i < n; i += 2) {
				unsigned c1 = name[i], c2 = i + 1 < n ? name[i + 1] : 0;
				s.data[0] = par(c1); s.data[1] = par(c2); sum += c1 + c2;
				feed(&s);
			}
			sum += 0x0F;
			s.data[0] = par(0x0F); s.data[1] = par((128 - (sum & 127)) & 127);
			feed(&s); report();
			break;
		}
		case 'W':
			sscanf(line + 1, "%x %x", &a, &b);
			s.id = VBI_SLICED_WSS_625; s.line = 23;
			s.data[0] = a; s.data[1] = b;
			feed(&s); report();
			break;
		}
	}
	if (vbi) vbi_decoder_delete(vbi);
	return 0;
}
