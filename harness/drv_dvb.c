/* Executor for the DVB VBI multiplexer / demultiplexer (C06, C07).  It only calls the library and prints
 * what is observable; no expectation and no parsing of the stream lives here.
 *
 * The demultiplexer context is private to src/dvb_demux.c; to print its wrap-around scalars (a debugger's
 * view) the real source file is compiled into this unit.  The archive member dvb_demux.o is then not
 * linked (all its symbols are defined here), so the code under test is still /repo's working tree.
 *
 * stdin (one command per line), stdout one JSON line per call:
 *   R                          reset all                              -> {"reset":1}
 *   S <hex>                    set the stream fed by F / C            -> {"s":<bytes>}
 *   O pes|ts cb|cor pid maxl   new demultiplexer                      -> {"a":"open",...}
 *   Z                          vbi_dvb_demux_reset, rewind the stream -> {"a":"zero"}
 *   F n1 n2 ...                vbi_dvb_demux_feed with the next n1, n2 ... bytes   -> {"a":"feed","n":..,"w":[..],"d":[frames]}
 *   C n1 n2 ...                vbi_dvb_demux_cor: a new buffer of n bytes, then again with the rest while it
 *                              returned lines or has input left       -> {"a":"cor","n":n|0,"w":[..],"d":[frame]|[]}
 *   M pes|ts pid cb|cor did min max   new multiplexer                 -> {"a":"mux",...}
 *   L line id <hex>            append a sliced line to the frame to be sent
 *   W line                     append a raw line (VBI_SLICED_VBI_625; samples from the raw frame)
 *   P offset samples           sampling parameters of the raw frame (default 132 720)   -> {"a":"rawpar",...}
 *   E hi lo                    vbi_dvb_mux_feed(frame, pts = hi << 30 | lo) -> {"a":"send","ok":..,"pk":[[bytes]..]}
 *   K hi lo b1 b2 ..           vbi_dvb_mux_cor until the frame is used up, buffer sizes b1 b2 .. cyclically
 *                                                                     -> {"a":"csend","ok":..,"out":[bytes],"calls":n}
 *   X                          vbi_dvb_mux_reset                      -> {"a":"mreset"}
 *   D did                      vbi_dvb_mux_set_data_identifier (between any two calls)  -> {"a":"setdid","req":did,"ok":..,"did":getter}
 *   Y min max                  vbi_dvb_mux_set_pes_packet_size                          -> {"a":"setsize","req":[min,max],"ok":..,"min":getter,"max":getter}
 *   G hi lo b [*]              ONE vbi_dvb_mux_cor call on the pending frame with a b byte buffer (with *: repeated until
 *                              the frame is used up), one line per call -> {"a":"cpart","b":b,"out":[bytes],"ok":..,"left":sliced_left}
 *                              the frame stays pending until left = 0 or a call failed; without a pending frame G prints nothing
 * Watchdog: a command that does not return within 20 s (wall clock) or uses more than 10 s of CPU time (ITIMER_PROF;
 * independent of the load of the machine) ends the process with exit code 95 after printing {"a":"watchdog"}.
 * A call that never returns may call the callback for ever: only the first MAX_REC frames of one call are printed
 * (no valid call delivers that many); a coroutine call that returns no lines and consumes nothing although input is
 * left is repeated (that is what every caller does) but printed only the first 3 times in a row.
 */
#include <stdio.h>
#include <stdlib.h>
#include <string.h>
#include <ctype.h>
#include <signal.h>
#include <unistd.h>
#include <sys/time.h>
#include "config.h"
#include "src/dvb_demux.c"
#include "src/dvb_mux.h"

static uint8_t *stream;
static unsigned stream_len, stream_pos;
static vbi_dvb_demux *dx;
static int dx_ts, dx_cb;
static unsigned dx_maxl;

static char *obuf;
static size_t ocap, olen;

static void out(const char *fmt, ...)
{
	va_list ap;
	int n;
	if (olen + 4096 > ocap) { ocap = ocap ? ocap * 2 : 1 << 16; obuf = realloc(obuf, ocap); }
	va_start(ap, fmt);
	n = vsnprintf(obuf + olen, ocap - olen, fmt, ap);
	va_end(ap);
	olen += n;
}

static unsigned paylen(unsigned id)
{
	if (id & VBI_SLICED_TELETEXT_B) return 42;
	if (id & (VBI_SLICED_VPS | VBI_SLICED_VPS_F2)) return 13;
	if (id & VBI_SLICED_WSS_CPR1204) return 3;
	return 2;
}

#define MAX_REC 20000
static int nframes;
static void put_frame(const vbi_sliced *s, unsigned n, int64_t pts)
{
	unsigned i, j;
	out("%s{\"pts\":[%u,%u],\"lines\":[", nframes++ ? "," : "", (unsigned)(pts >> 30), (unsigned)(pts & 0x3FFFFFFF));
	for (i = 0; i < n; ++i) {
		out("%s{\"line\":%u,\"id\":%u,\"data\":[", i ? "," : "", s[i].line, s[i].id);
		for (j = 0; j < paylen(s[i].id); ++j)
			out("%s%u", j ? "," : "", s[i].data[j]);
		out("]}");
	}
	out("]}");
}

static vbi_bool demux_cb(vbi_dvb_demux *d, void *ud, const vbi_sliced *s, unsigned n, int64_t pts)
{
	(void) d; (void) ud;
	if (nframes < MAX_REC)
		put_frame(s, n, pts);
	return TRUE;
}

static void scalars(void)
{
	unsigned nl = dx->frame.sp - dx->frame.sliced_begin;
	if (!dx_ts)
		out("\"w\":[%u,%u,%u,%d,%u]", dx->pes_wrap.skip, dx->pes_wrap.lookahead, dx->pes_wrap.leftover,
		    !!dx->new_frame, nl);
	else
		out("\"w\":[%u,%u,%u,%u,%d,%d,%u,%u,%d,%u]", dx->ts_wrap.skip, dx->ts_wrap.lookahead, dx->ts_wrap.consume,
		    (unsigned)(dx->ts_wrap.bp - dx->ts_buffer), !!dx->ts_in_sync, dx->ts_continuity, dx->ts_pes_todo,
		    dx->ts_frame_todo, !!dx->new_frame, nl);
}

static void flush_line(void)
{
	fwrite(obuf, 1, olen, stdout);
	fputc('\n', stdout);
	olen = 0;
}

/* a heap copy of exactly n bytes so that ASan sees every read outside the caller's buffer */
static uint8_t *exact(const uint8_t *p, unsigned n)
{
	uint8_t *q = malloc(n ? n : 1);
	memcpy(q, p, n);
	return q;
}

static unsigned unhex(const char *p, uint8_t **dst)
{
	unsigned n = 0, cap = strlen(p) / 2 + 1;
	uint8_t *b = malloc(cap);
	while (isxdigit((unsigned char) p[0]) && isxdigit((unsigned char) p[1])) {
		unsigned v;
		sscanf(p, "%2x", &v);
		b[n++] = v;
		p += 2;
	}
	*dst = b;
	return n;
}

/* ---------------------------------------------------------------- multiplexer */
static vbi_dvb_mux *mx;
static vbi_sliced frame[80];
static unsigned frame_n;
static const vbi_sliced *gs;	/* G: the frame being handed to the coroutine call by call */
static unsigned gs_left;
static int g_active;
static uint8_t rawbuf[34 * 720];
static vbi_sampling_par sp;
static int npk;

static vbi_bool mux_cb(vbi_dvb_mux *m, void *ud, const uint8_t *p, unsigned n)
{
	unsigned i;
	(void) m; (void) ud;
	out("%s[", npk++ ? "," : "");
	for (i = 0; i < n; ++i)
		out("%s%u", i ? "," : "", p[i]);
	out("]");
	return TRUE;
}

static void init_raw(unsigned offset, unsigned samples)
{
	unsigned r, i;
	memset(&sp, 0, sizeof sp);
	sp.scanning = 625;
	sp.sampling_format = VBI_PIXFMT_YUV420;
	sp.sampling_rate = 13500000;
	sp.bytes_per_line = samples;
	sp.offset = offset;
	sp.start[0] = 7; sp.count[0] = 17;
	sp.start[1] = 320; sp.count[1] = 17;
	sp.interlaced = FALSE;
	sp.synchronous = TRUE;
	for (r = 0; r < 34; ++r)
		for (i = 0; i < samples; ++i)
			rawbuf[r * samples + i] = (r * 37 + i * 5 + 16) & 0xFF;
}

static void on_alarm(int sig)
{
	static const char msg[] = "\n{\"a\":\"watchdog\"}\n";
	(void) sig;
	fflush(stdout);
	if (write(1, msg, sizeof msg - 1) < 0) _exit(94);
	_exit(95);
}

int main(void)
{
	static char line[1 << 20];
	setvbuf(stdout, NULL, _IOFBF, 1 << 18);
	signal(SIGALRM, on_alarm);
	signal(SIGPROF, on_alarm);
	init_raw(132, 720);
	while (fgets(line, sizeof line, stdin)) {
		char *p = line + 1;
		struct itimerval cpu = { { 0, 0 }, { 10, 0 } };
		alarm(20);
		setitimer(ITIMER_PROF, &cpu, NULL);
		switch (line[0]) {
		case 'R':
			if (dx) vbi_dvb_demux_delete(dx);
			if (mx) vbi_dvb_mux_delete(mx);
			dx = NULL; mx = NULL;
			free(stream); stream = NULL; stream_len = stream_pos = 0;
			frame_n = 0; g_active = 0;
			init_raw(132, 720);
			printf("{\"reset\":1}\n");
			break;
		case 'S':
			free(stream);
			while (*p == ' ') ++p;
			stream_len = unhex(p, &stream);
			stream_pos = 0;
			printf("{\"s\":%u}\n", stream_len);
			break;
		case 'O': {
			char kind[8], iface[8];
			unsigned pid = 0, maxl = 64;
			sscanf(p, "%7s %7s %u %u", kind, iface, &pid, &maxl);
			if (dx) vbi_dvb_demux_delete(dx);
			dx_ts = !strcmp(kind, "ts");
			dx_cb = !strcmp(iface, "cb");
			dx_maxl = maxl;
			dx = dx_ts ? _vbi_dvb_ts_demux_new(dx_cb ? demux_cb : NULL, NULL, pid)
				   : vbi_dvb_pes_demux_new(dx_cb ? demux_cb : NULL, NULL);
			stream_pos = 0;
			printf("{\"a\":\"open\",\"ts\":%s,\"cb\":%s,\"pid\":%u,\"maxl\":%u,\"ok\":%s}\n", dx_ts ? "true" : "false",
			       dx_cb ? "true" : "false", pid, maxl, dx ? "true" : "false");
			break;
		}
		case 'Z':
			if (dx) vbi_dvb_demux_reset(dx);
			stream_pos = 0;
			printf("{\"a\":\"zero\"}\n");
			break;
		case 'F':
			while (dx) {
				unsigned n;
				uint8_t *b;
				vbi_bool ok;
				char *e;
				n = strtoul(p, &e, 10);
				if (e == p) break;
				p = e;
				if (n > stream_len - stream_pos) n = stream_len - stream_pos;
				b = exact(stream + stream_pos, n);
				nframes = 0;
				out("{\"a\":\"feed\",\"n\":%u,\"d\":[", n);
				ok = vbi_dvb_demux_feed(dx, b, n);
				out("],\"ok\":%s,", ok ? "true" : "false");
				scalars();
				out("}");
				flush_line();
				free(b);
				stream_pos += n;
			}
			break;
		case 'C':
			while (dx) {
				unsigned n, left, first = 1, stall = 0;
				uint8_t *b;
				const uint8_t *bp;
				char *e;
				n = strtoul(p, &e, 10);
				if (e == p) break;
				p = e;
				if (n > stream_len - stream_pos) n = stream_len - stream_pos;
				b = exact(stream + stream_pos, n);
				bp = b; left = n;
				for (;;) {
					vbi_sliced sl[64];
					int64_t pts = -1;
					unsigned before = left, r;
					r = vbi_dvb_demux_cor(dx, sl, dx_maxl, &pts, &bp, &left);
					stall = (0 == r && before == left) ? stall + 1 : 0;
					if (stall > 3) continue;	/* no lines, nothing consumed, input left: until the watchdog */
					nframes = 0;
					out("{\"a\":\"cor\",\"n\":%u,\"d\":[", first ? n : 0);
					if (r > 0) put_frame(sl, r, pts);
					out("],\"used\":%u,", before - left);
					scalars();
					out("}");
					flush_line();
					first = 0;
					if (r == 0 && left == 0) break;
				}
				free(b);
				stream_pos += n;
			}
			break;
		case 'M': {
			char kind[8], iface[8];
			unsigned pid, did, mn, mxs;
			vbi_bool ok1, ok2;
			sscanf(p, "%7s %u %7s %u %u %u", kind, &pid, iface, &did, &mn, &mxs);
			if (mx) vbi_dvb_mux_delete(mx);
			if (!strcmp(kind, "ts"))
				mx = vbi_dvb_ts_mux_new(pid, !strcmp(iface, "cb") ? mux_cb : NULL, NULL);
			else
				mx = vbi_dvb_pes_mux_new(!strcmp(iface, "cb") ? mux_cb : NULL, NULL);
			if (!mx) { printf("{\"a\":\"mux\",\"ok\":false}\n"); break; }
			ok1 = vbi_dvb_mux_set_data_identifier(mx, did);
			ok2 = vbi_dvb_mux_set_pes_packet_size(mx, mn, mxs);
			frame_n = 0; g_active = 0;
			printf("{\"a\":\"mux\",\"ok\":true,\"ts\":%s,\"pid\":%u,\"did_ok\":%s,\"did\":%u,\"size_ok\":%s,\"min\":%u,\"max\":%u}\n",
			       !strcmp(kind, "ts") ? "true" : "false", pid, ok1 ? "true" : "false", vbi_dvb_mux_get_data_identifier(mx),
			       ok2 ? "true" : "false", vbi_dvb_mux_get_min_pes_packet_size(mx), vbi_dvb_mux_get_max_pes_packet_size(mx));
			break;
		}
		case 'L': {
			unsigned ln, id, n;
			int used = 0;
			uint8_t *d;
			if (frame_n >= 80) break;
			sscanf(p, "%u %u %n", &ln, &id, &used);
			n = unhex(p + used, &d);
			memset(&frame[frame_n], 0, sizeof frame[0]);
			frame[frame_n].line = ln; frame[frame_n].id = id;
			memcpy(frame[frame_n].data, d, n > 56 ? 56 : n);
			free(d);
			++frame_n;
			break;
		}
		case 'W': {
			unsigned ln;
			if (frame_n >= 80) break;
			sscanf(p, "%u", &ln);
			memset(&frame[frame_n], 0, sizeof frame[0]);
			frame[frame_n].line = ln; frame[frame_n].id = VBI_SLICED_VBI_625;
			++frame_n;
			break;
		}
		case 'P': {
			unsigned o, n;
			sscanf(p, "%u %u", &o, &n);
			if (n > 720) n = 720;
			init_raw(o, n);
			printf("{\"a\":\"rawpar\",\"offset\":%u,\"samples\":%u}\n", o, n);
			break;
		}
		case 'E': {
			unsigned hi, lo;
			vbi_bool ok;
			sscanf(p, "%u %u", &hi, &lo);
			npk = 0;
			out("{\"a\":\"send\",\"pk\":[");
			ok = mx ? vbi_dvb_mux_feed(mx, frame, frame_n, -1, rawbuf, &sp, ((int64_t) hi << 30) | lo) : FALSE;
			out("],\"ok\":%s}", ok ? "true" : "false");
			flush_line();
			frame_n = 0;
			break;
		}
		case 'K': {
			unsigned hi, lo, sizes[64], ns = 0, k = 0, calls = 0, i, total = 0;
			int used = 0;
			vbi_bool ok = TRUE;
			const vbi_sliced *s = frame;
			unsigned s_left = frame_n;
			char *e;
			sscanf(p, "%u %u%n", &hi, &lo, &used);
			p += used;
			for (;;) {
				unsigned v = strtoul(p, &e, 10);
				if (e == p || ns >= 64) break;
				sizes[ns++] = v; p = e;
			}
			if (!ns) sizes[ns++] = 4096;
			out("{\"a\":\"csend\",\"out\":[");
			while (mx && s_left > 0) {
				unsigned bl = sizes[k++ % ns], left = bl;
				uint8_t *buf = malloc(bl ? bl : 1), *bp = buf;
				ok = vbi_dvb_mux_cor(mx, &bp, &left, &s, &s_left, -1, rawbuf, &sp, ((int64_t) hi << 30) | lo);
				++calls;
				if (!ok) { free(buf); break; }
				for (i = 0; i < bl - left; ++i)
					out("%s%u", total++ ? "," : "", buf[i]);
				free(buf);
				if (calls > 200000) { ok = FALSE; break; }
			}
			out("],\"ok\":%s,\"calls\":%u,\"left\":%u}", ok ? "true" : "false", calls, s_left);
			flush_line();
			frame_n = 0;
			break;
		}
		case 'D': {
			unsigned did = 0;
			vbi_bool ok;
			sscanf(p, "%u", &did);
			if (!mx) break;
			ok = vbi_dvb_mux_set_data_identifier(mx, did);
			printf("{\"a\":\"setdid\",\"req\":%u,\"ok\":%s,\"did\":%u}\n", did, ok ? "true" : "false",
			       vbi_dvb_mux_get_data_identifier(mx));
			break;
		}
		case 'Y': {
			unsigned mn = 0, mxs = 0;
			vbi_bool ok;
			sscanf(p, "%u %u", &mn, &mxs);
			if (!mx) break;
			ok = vbi_dvb_mux_set_pes_packet_size(mx, mn, mxs);
			printf("{\"a\":\"setsize\",\"req\":[%u,%u],\"ok\":%s,\"min\":%u,\"max\":%u}\n", mn, mxs, ok ? "true" : "false",
			       vbi_dvb_mux_get_min_pes_packet_size(mx), vbi_dvb_mux_get_max_pes_packet_size(mx));
			break;
		}
		case 'G': {
			/* the frame handed to the coroutine call by call: the sliced pointer / count persist between G commands */
			unsigned hi = 0, lo = 0, bl = 4096, calls = 0, i;
			int rep;
			sscanf(p, "%u %u %u", &hi, &lo, &bl);
			rep = NULL != strchr(p, '*');
			if (!mx || 0 == frame_n) break;
			if (!g_active) { gs = frame; gs_left = frame_n; g_active = 1; }
			do {
				unsigned left = bl;
				uint8_t *buf = malloc(bl ? bl : 1), *bp = buf;
				vbi_bool ok = vbi_dvb_mux_cor(mx, &bp, &left, &gs, &gs_left, -1, rawbuf, &sp, ((int64_t) hi << 30) | lo);
				out("{\"a\":\"cpart\",\"b\":%u,\"out\":[", bl);
				if (ok)
					for (i = 0; i < bl - left; ++i)
						out("%s%u", i ? "," : "", buf[i]);
				out("],\"ok\":%s,\"left\":%u}", ok ? "true" : "false", gs_left);
				flush_line();
				free(buf);
				if (!ok || 0 == gs_left || ++calls > 200000) { g_active = 0; frame_n = 0; break; }
			} while (rep);
			break;
		}
		case 'X':
			if (mx) vbi_dvb_mux_reset(mx);
			printf("{\"a\":\"mreset\"}\n");
			break;
		}
	}
	if (dx) vbi_dvb_demux_delete(dx);
	if (mx) vbi_dvb_mux_delete(mx);
	free(stream);
	free(obuf);
	return 0;
}
