/* Executor / recorder for ExportIO, ExportText and CanvasCells (C16).  It only calls the library and prints what is
 * observable (return values, produced bytes as hash / code points, guard bytes, internal buffer fields of the
 * public struct vbi_export, the projection of canvases to character cells).  No expectation lives here.
 *
 * stdin (one command per line):
 *   R                         fresh decoder                                          -> {"reset":1}
 *   G <region>                vbi_teletext_set_default_region                        (silent)
 *   P <84 hex digits>         one Teletext packet, one frame                         (silent)
 *   K <field> <b1> <b2>       one caption byte pair (hex, parity included) on field 1 / 2 = line 21 / 284  (silent)
 *   F <pgno> <subno> <level> <rows> <nav>   vbi_fetch_vt_page -> current page        -> {"page":{...}} | {"page":null}
 *   C <channel>               vbi_fetch_cc_page -> current page                      -> {"page":{...}}
 *   f ... / c ...             like F / C but silent (followed by E)
 *   E [<row> <col> <size> <attr>]...   edit cells of the current page as an application may do before rendering (vbi_page is a
 *                             public structure): size = vbi_size, attr bit 0 conceal, bit 1 flash  -> {"page":{...}}
 *   X <module> <every_upto> <edge> <nrand> <seed> <decode charset|-> <gfx code> <opts|->
 *                             the four export targets on the current page            -> {"x":{...}}
 *   T <format> <table> <col> <row> <w> <h> <every_upto> <edge> <nrand> <seed>
 *                             vbi_print_page_region with many buffer sizes           -> {"t":{...}}
 *   D <vt|cc> <fmt> <exact|plus<N>|full|auto> <col> <row> <w> <h> <reveal> <flash>
 *                             draw a region into a guarded canvas, project to cells  -> {"d":{...}}
 *   Z <module> <file> <opts|->               vbi_export_file into a file that is kept (for inspection only)
 *   W <mem|alloc|stdio|file> <size> <op>...      scripted export module (w<n> c p<n> g<n> f) through the public
 *                             target functions; logs the write layer's state after every operation -> {"w":{...}}
 */
#include <stdio.h>
#include <stdlib.h>
#include <string.h>
#include <unistd.h>
#include <errno.h>
#include <iconv.h>
#include "config.h"
#include "src/vbi.h"
#include "src/export.h"
#include "src/exp-gfx.h"
#include "src/exp-txt.h"
#include "src/lang.h"

static vbi_decoder *vbi;
static double t;
static vbi_page pg;
static int have_page;
static char scratch[512];

#define GUARD 8192
static unsigned char guard_byte(size_t i) { return 0x80 | ((i * 7 + 3) & 0x3F); }

static void fill_guard(unsigned char *p, size_t n) { size_t i; for (i = 0; i < n; i++) p[i] = guard_byte(i); }
static long guard_bad(const unsigned char *p, size_t from, size_t to)
{
	size_t i; long n = 0;
	for (i = from; i < to; i++) if (p[i] != guard_byte(i)) n++;
	return n;
}

static void fnv(const unsigned char *p, size_t n, char out[20])
{
	unsigned long long h = 1469598103934665603ULL;
	size_t i;
	for (i = 0; i < n; i++) { h ^= p[i]; h *= 1099511628211ULL; }
	snprintf(out, 20, "%016llx", h);
}

static void handler(vbi_event *ev, void *ud) { (void) ev; (void) ud; }

/* ------------------------------------------------------------------ page */

static void drop_refs(void);

static void print_page(void)
{
	int i, n = pg.rows * pg.columns;
	printf("{\"page\":{\"pgno\":%d,\"subno\":%d,\"rows\":%d,\"cols\":%d,\"cells\":[", pg.pgno, pg.subno, pg.rows, pg.columns);
	for (i = 0; i < n; i++) {
		vbi_char *a = &pg.text[i];
		printf("%s[%u,%u,%u,%u,%u,%u,%u,%u,%u,%u]", i ? "," : "", a->unicode, a->size, a->foreground, a->background,
		       a->opacity, a->flash, a->conceal, a->underline, a->bold, a->italic);
	}
	printf("]}}\n");
}

/* ------------------------------------------------------------------ buffer size plans */

static unsigned long long lcg;
static unsigned rnd(void) { lcg = lcg * 6364136223846793005ULL + 1442695040888963407ULL; return (unsigned) (lcg >> 33); }

/* the sizes to try for an output of `needed` bytes: every size 0..needed+1 when needed <= every_upto, otherwise
   0..edge, needed-edge..needed+1 and nrand others.  Returned sorted, unique. */
static int cmp_sz(const void *a, const void *b) { long x = *(const long *) a, y = *(const long *) b; return x < y ? -1 : x > y; }
static long *size_plan(long needed, long every_upto, long edge, long nrand, unsigned seed, long *count)
{
	long n = 0, i, *v, m;
	if (needed <= every_upto) {
		v = malloc((needed + 2) * sizeof *v);
		for (i = 0; i <= needed + 1; i++) v[n++] = i;
		*count = n;
		return v;
	}
	v = malloc((2 * edge + nrand + 8) * sizeof *v);
	for (i = 0; i <= edge && i <= needed + 1; i++) v[n++] = i;
	for (i = needed - edge; i <= needed + 1; i++) if (i > edge) v[n++] = i;
	lcg = seed * 2654435761u + 12345;
	for (i = 0; i < nrand; i++) v[n++] = edge + 1 + rnd() % (needed - edge);
	qsort(v, n, sizeof *v, cmp_sz);
	for (i = 0, m = 0; i < n; i++) if (m == 0 || v[m - 1] != v[i]) v[m++] = v[i];
	*count = m;
	return v;
}

/* run-length output of per-size observations */
struct run { long from, to, ret, guard; char h[20]; };
static struct run cur; static int have_run, nruns;
static void run_flush(void)
{
	if (have_run) printf("%s[%ld,%ld,%ld,%ld,\"%s\"]", nruns++ ? "," : "", cur.from, cur.to, cur.ret, cur.guard, cur.h);
	have_run = 0;
}
static void run_add(long size, long ret, long guard, const char *h)
{
	if (have_run && cur.ret == ret && cur.guard == guard && !strcmp(cur.h, h) && (cur.to < cur.ret) == (size < ret)) { cur.to = size; return; }
	run_flush();
	cur.from = cur.to = size; cur.ret = ret; cur.guard = guard; strcpy(cur.h, h); have_run = 1;
}

/* ------------------------------------------------------------------ converting text back */

static void print_codepoints(const char *charset, const unsigned char *data, size_t n)
{
	iconv_t cd = iconv_open("UCS-4LE", charset);
	char *in = (char *) data, *outb, *out;
	size_t li = n, lo = 4 * n + 16, i, r;
	if (cd == (iconv_t) -1) { printf("null"); return; }
	out = outb = malloc(lo);
	r = iconv(cd, &in, &li, &out, &lo);
	iconv_close(cd);
	if (r == (size_t) -1) { printf("{\"undecodable_at\":%ld}", (long) (n - li)); free(outb); return; }
	printf("[");
	for (i = 0; i + 3 < (size_t) (out - outb); i += 4)
		printf("%s%u", i ? "," : "", (unsigned) ((unsigned char) outb[i] | (unsigned char) outb[i + 1] << 8
		       | (unsigned char) outb[i + 2] << 16 | (unsigned) (unsigned char) outb[i + 3] << 24));
	printf("]");
	free(outb);
}

/* code points on the current page (and the extra one `also`) the C library's iconv cannot represent in `charset` */
static void print_unrepresentable(const char *charset, unsigned also)
{
	static unsigned char seen[65536 / 8];
	iconv_t cd = iconv_open(charset, "UCS-4LE");
	int i, n = pg.rows * pg.columns, first = 1;
	printf("[");
	if (cd != (iconv_t) -1) {
		memset(seen, 0, sizeof seen);
		for (i = 0; i <= n; i++) {
			unsigned u = i < n ? pg.text[i].unicode : also;
			unsigned char inb[4] = { u & 255, u >> 8, 0, 0 }, outb[16];
			char *in = (char *) inb, *out = (char *) outb;
			size_t li = 4, lo = sizeof outb;
			if (seen[u >> 3] & (1 << (u & 7))) continue;
			seen[u >> 3] |= 1 << (u & 7);
			iconv(cd, NULL, NULL, NULL, NULL);
			if (iconv(cd, &in, &li, &out, &lo) == (size_t) -1) { printf("%s%u", first ? "" : ",", u); first = 0; }
		}
		iconv_close(cd);
	}
	printf("]");
}

/* ------------------------------------------------------------------ X: the four export targets */

static unsigned char *slurp(const char *name, long *len)
{
	FILE *f = fopen(name, "rb");
	unsigned char *b; long n;
	if (!f) { *len = -1; return NULL; }
	fseek(f, 0, SEEK_END); n = ftell(f); fseek(f, 0, SEEK_SET);
	b = malloc(n + 1);
	*len = (long) fread(b, 1, n, f);
	fclose(f);
	return b;
}

static void set_options(vbi_export *e, char *opts)
{
	char *tok, *save = NULL;
	int first = 1;
	printf("\"optfail\":[");
	if (strcmp(opts, "-"))
		for (tok = strtok_r(opts, ",", &save); tok; tok = strtok_r(NULL, ",", &save)) {
			char *eq = strchr(tok, '=');
			vbi_option_info *oi;
			int ok;
			if (!eq) continue;
			*eq++ = 0;
			oi = vbi_export_option_info_keyword(e, tok);
			if (!oi) ok = 0;
			else if (oi->type == VBI_OPTION_STRING) ok = vbi_export_option_set(e, tok, eq);
			else if (oi->type == VBI_OPTION_REAL) ok = vbi_export_option_set(e, tok, atof(eq));
			else ok = vbi_export_option_set(e, tok, atoi(eq));
			if (!ok) { printf("%s\"%s\"", first ? "" : ",", tok); first = 0; }
		}
	printf("],");
}

static void cmd_export(char *line)
{
	char mod[64], decode[64], opts[512], name[600], h[20];
	long every_upto, edge, nrand, needed = -1, nsz, i;
	unsigned seed, gfx = 0x20;
	vbi_export *e;
	char *err = NULL;
	void *abuf = NULL; size_t alen = 0;
	opts[0] = 0;
	if (sscanf(line, "%63s %ld %ld %ld %u %63s %u %511s", mod, &every_upto, &edge, &nrand, &seed, decode, &gfx, opts) < 8 || !have_page) {
		printf("{\"x\":null}\n"); return;
	}
	e = vbi_export_new(mod, &err);
	if (!e) { printf("{\"x\":{\"mod\":\"%s\",\"new\":0}}\n", mod); free(err); return; }
	printf("{\"x\":{\"mod\":\"%s\",\"new\":1,", mod);
	set_options(e, opts);
	/* allocated buffer */
	{
		void *r = vbi_export_alloc(e, &abuf, &alen, &pg);
		if (r) { fnv(abuf, alen, h); needed = (long) alen; printf("\"alloc\":{\"ok\":1,\"len\":%ld,\"h\":\"%s\"},", (long) alen, h); }
		else printf("\"alloc\":{\"ok\":0,\"len\":-1,\"h\":\"-\"},");
	}
	/* stdio stream */
	{
		char *mb = NULL; size_t ml = 0;
		FILE *fp = open_memstream(&mb, &ml);
		int ok = vbi_export_stdio(e, fp, &pg);
		fclose(fp);
		fnv((unsigned char *) mb, ml, h);
		printf("\"stdio\":{\"ok\":%d,\"len\":%ld,\"h\":\"%s\"},", ok, (long) ml, h);
		free(mb);
	}
	/* file */
	{
		long fl; unsigned char *fb; int ok;
		snprintf(name, sizeof name, "%s/c16-%d.out", scratch, (int) getpid());
		ok = vbi_export_file(e, name, &pg);
		fb = slurp(name, &fl);
		fnv(fb ? fb : (unsigned char *) "", fl > 0 ? fl : 0, h);
		printf("\"file\":{\"ok\":%d,\"len\":%ld,\"h\":\"%s\"},", ok, fl, h);
		free(fb); unlink(name);
	}
	/* caller buffer of many sizes inside guard bytes */
	printf("\"mem\":{\"runs\":[");
	have_run = 0; nruns = 0; nsz = 0;
	if (needed >= 0) {
		long *sz = size_plan(needed, every_upto, edge, nrand, seed, &nsz);
		unsigned char *big = malloc(GUARD + needed + 2 + GUARD);
		for (i = 0; i < nsz; i++) {
			long k = sz[i], ret, gb;
			fill_guard(big, GUARD + k + GUARD);
			ret = (long) vbi_export_mem(e, big + GUARD, k, &pg);
			gb = guard_bad(big, 0, GUARD) + guard_bad(big, GUARD + k, GUARD + k + GUARD);
			if (ret >= 0 && ret <= k) fnv(big + GUARD, ret, h); else strcpy(h, "-");
			run_add(k, ret, gb, h);
		}
		run_flush();
		free(big); free(sz);
	}
	printf("],\"n\":%ld,\"nullbuf\":%ld}", nsz, (long) vbi_export_mem(e, NULL, 100, &pg));
	if (strcmp(decode, "-") && abuf) {
		printf(",\"cp\":"); print_codepoints(decode, abuf, alen);
		printf(",\"unrepr\":"); print_unrepresentable(decode, gfx);
		printf(",\"gfx\":%u", gfx);
	}
	printf("}}\n");
	free(abuf);
	vbi_export_delete(e);
}

/* ------------------------------------------------------------------ T: vbi_print_page_region */

static void cmd_print(char *line)
{
	char format[64], h[20];
	int table, col, row, w, hh;
	long every_upto, edge, nrand, needed, nsz, i;
	unsigned seed;
	unsigned char *big;
	if (sscanf(line, "%63s %d %d %d %d %d %ld %ld %ld %u", format, &table, &col, &row, &w, &hh, &every_upto, &edge, &nrand, &seed) < 10 || !have_page) {
		printf("{\"t\":null}\n"); return;
	}
	big = malloc(GUARD + 65536 + GUARD);
	fill_guard(big, GUARD + 65536 + GUARD);
	needed = vbi_print_page_region(&pg, (char *) big + GUARD, 65536, format, table, 0, col, row, w, hh);
	printf("{\"t\":{\"ret0\":%ld,\"cp\":", needed);
	print_codepoints(format, big + GUARD, needed);
	printf(",\"unrepr\":"); print_unrepresentable(format, 0x20);
	printf(",\"runs\":[");
	have_run = 0; nruns = 0; nsz = 0;
	if (needed > 0) {
		long *sz = size_plan(needed, every_upto, edge, nrand, seed, &nsz);
		for (i = 0; i < nsz; i++) {
			long k = sz[i], ret, gb;
			fill_guard(big, GUARD + k + GUARD);
			ret = vbi_print_page_region(&pg, (char *) big + GUARD, (int) k, format, table, 0, col, row, w, hh);
			gb = guard_bad(big, 0, GUARD) + guard_bad(big, GUARD + k, GUARD + k + GUARD);
			if (ret > 0 && ret <= k) fnv(big + GUARD, ret, h); else strcpy(h, "-");
			run_add(k, ret, gb, h);
		}
		run_flush();
		free(sz);
	}
	{
		/* the reference identity of the complete output */
		if (needed > 0) {
			fill_guard(big, GUARD + 65536 + GUARD);
			vbi_print_page_region(&pg, (char *) big + GUARD, 65536, format, table, 0, col, row, w, hh);
			fnv(big + GUARD, needed, h);
		} else strcpy(h, "-");
	}
	printf("],\"n\":%ld,\"h\":\"%s\"}}\n", nsz, h);
	free(big);
}

/* ------------------------------------------------------------------ D: rendering */

#define REF_PAD 256
static struct { int valid, kind, fmt, reveal, flash; unsigned char *px; } ref[4];

static void drop_refs(void) { int i; for (i = 0; i < 4; i++) { free(ref[i].px); ref[i].px = NULL; ref[i].valid = 0; } }

static void draw(int kind, int fmt, void *canvas, int stride, int col, int row, int w, int h, int reveal, int flash)
{
	if (kind) vbi_draw_cc_page_region(&pg, fmt, canvas, stride, col, row, w, h);
	else vbi_draw_vt_page_region(&pg, fmt, canvas, stride, col, row, w, h, reveal, flash);
}

static unsigned char *full_page(int kind, int fmt, int bpp, int reveal, int flash)
{
	int i, cw = kind ? 16 : 12, ch = kind ? 26 : 10, slot = -1;
	for (i = 0; i < 4; i++) {
		if (ref[i].valid && ref[i].kind == kind && ref[i].fmt == fmt && ref[i].reveal == reveal && ref[i].flash == flash) return ref[i].px;
		if (!ref[i].valid && slot < 0) slot = i;
	}
	if (slot < 0) { slot = 0; free(ref[0].px); }
	/* the full-page rendering: every pixel line is followed by REF_PAD bytes nobody looks at, so that the cells of the reference
	   are what the library draws for these cells, whatever it may write right of the page's last column */
	ref[slot].px = calloc((size_t) (pg.columns * cw * bpp + REF_PAD) * pg.rows * ch + REF_PAD, 1);
	draw(kind, fmt, ref[slot].px, pg.columns * cw * bpp + REF_PAD, 0, 0, pg.columns, pg.rows, reveal, flash);
	ref[slot].valid = 1; ref[slot].kind = kind; ref[slot].fmt = fmt; ref[slot].reveal = reveal; ref[slot].flash = flash;
	return ref[slot].px;
}

static int fmt_of(const char *s, int *bpp)
{
	*bpp = 4;
	if (!strcmp(s, "RGBA32_LE")) return VBI_PIXFMT_RGBA32_LE;
	if (!strcmp(s, "PAL8")) { *bpp = 1; return VBI_PIXFMT_PAL8; }
	if (!strcmp(s, "YUV420")) return VBI_PIXFMT_YUV420;
	if (!strcmp(s, "RGB16_LE")) { *bpp = 2; return VBI_PIXFMT_RGB16_LE; }
	if (!strcmp(s, "RGBA32_BE")) return VBI_PIXFMT_RGBA32_BE;
	if (!strcmp(s, "BGR24")) { *bpp = 3; return VBI_PIXFMT_BGR24; }
	return atoi(s);
}

static void cmd_draw(char *line)
{
	char kinds[8], fmts[32], strides[16];
	int col, row, w, h, reveal, flash, kind, fmt, bpp, cw, ch, stride, arg_stride, rect, i, j, y;
	int supported;
	size_t size, k;
	unsigned char *big, *cv, *full = NULL;
	long pre, post, bad_line = -1, bad_x = -1;
	if (sscanf(line, "%7s %31s %15s %d %d %d %d %d %d", kinds, fmts, strides, &col, &row, &w, &h, &reveal, &flash) < 9 || !have_page) {
		printf("{\"d\":null}\n"); return;
	}
	kind = !strcmp(kinds, "cc");
	fmt = fmt_of(fmts, &bpp);
	supported = fmt == VBI_PIXFMT_RGBA32_LE || fmt == VBI_PIXFMT_PAL8;
	cw = kind ? 16 : 12; ch = kind ? 26 : 10;
	rect = w * cw * bpp;
	if (!strcmp(strides, "exact")) stride = rect;
	else if (!strncmp(strides, "plus", 4)) stride = rect + atoi(strides + 4);
	else if (!strcmp(strides, "full")) stride = pg.columns * cw * bpp + 8;
	else stride = pg.columns * cw * bpp;                      /* auto: -1, whole rows only */
	arg_stride = !strcmp(strides, "auto") ? -1 : stride;
	size = (size_t) stride * h * ch;                          /* the documented canvas size */
	big = malloc(GUARD + size + GUARD);
	fill_guard(big, GUARD + size + GUARD);
	cv = big + GUARD;
	draw(kind, fmt, cv, arg_stride, col, row, w, h, reveal, flash);
	pre = guard_bad(big, 0, GUARD);
	post = guard_bad(big, GUARD + size, GUARD + size + GUARD);
	if (supported) full = full_page(kind, fmt, bpp, reveal, flash);
	printf("{\"d\":{\"cells\":[");
	for (i = 0; i < h; i++) {
		printf("%s\"", i ? "," : "");
		for (j = 0; j < w; j++) {
			int same = supported, untouched = 1;
			for (y = 0; y < ch; y++) {
				size_t o = (size_t) (i * ch + y) * stride + (size_t) j * cw * bpp;
				for (k = 0; k < (size_t) cw * bpp; k++) if (cv[o + k] != guard_byte(GUARD + o + k)) { untouched = 0; break; }
				if (same && memcmp(cv + o, full + (size_t) ((row + i) * ch + y) * (pg.columns * cw * bpp + REF_PAD)
						   + (size_t) (col + j) * cw * bpp, (size_t) cw * bpp)) same = 0;
			}
			putchar(untouched ? 'U' : same ? 'G' : 'X');
		}
		printf("\"");
	}
	printf("],\"pad\":\"");
	for (i = 0; i < h; i++) {
		int untouched = 1;
		for (y = 0; y < ch; y++) {
			size_t o = (size_t) (i * ch + y) * stride;
			for (k = rect; k < (size_t) stride; k++)
				if (cv[o + k] != guard_byte(GUARD + o + k)) { untouched = 0; if (bad_line < 0) { bad_line = i * ch + y; bad_x = (long) k; } }
		}
		putchar(untouched ? 'U' : 'X');
	}
	printf("\",\"pre\":%ld,\"post\":%ld,\"stride\":%d,\"rect\":%d,\"first_pad_write\":[%ld,%ld]}}\n", pre, post, stride, rect, bad_line, bad_x);
	free(big);
}

/* ------------------------------------------------------------------ W: scripted export module */

static char w_ops[64][16];
static int w_nops;
static long w_made;
static void *w_caller;
static char w_log[1 << 16];
static int w_logn;

static unsigned char pat(long k) { return (unsigned char) ((k % 251) + 1); }       /* byte k (1-based) of the module's output */

static const char *target_name(int tg)
{
	switch (tg) {
	case VBI_EXPORT_TARGET_MEM: return "MEM";
	case VBI_EXPORT_TARGET_ALLOC: return "ALLOC";
	case VBI_EXPORT_TARGET_FP: return "FP";
	case VBI_EXPORT_TARGET_FD: return "FD";
	case VBI_EXPORT_TARGET_FILE: return "FILE";
	}
	return "?";
}

static vbi_bool probe_export(vbi_export *e, vbi_page *p)
{
	int i;
	(void) p;
	for (i = 0; i < w_nops; i++) {
		char op = w_ops[i][0];
		long n = atol(w_ops[i] + 1), j;
		int ok = 0;
		unsigned char *tmp = malloc(n + 2);
		for (j = 0; j < n; j++) tmp[j] = pat(w_made + 1 + j);
		tmp[n] = 0;
		switch (op) {
		case 'w': ok = vbi_export_write(e, tmp, n); if (ok) w_made += n; break;
		case 'c': ok = vbi_export_putc(e, pat(w_made + 1)); if (ok) w_made += 1; n = 1; break;
		case 'p': ok = vbi_export_printf(e, "%s", (char *) tmp); if (ok) w_made += n; break;
		case 's': ok = vbi_export_puts(e, (char *) tmp); if (ok) w_made += n; break;
		case 'g': ok = _vbi_export_grow_buffer_space(e, n); break;
		case 'f': ok = vbi_export_flush(e); n = 0; break;
		}
		free(tmp);
		if (w_logn < (int) sizeof w_log - 300)
			w_logn += snprintf(w_log + w_logn, sizeof w_log - w_logn,
					   "%s{\"op\":\"%c\",\"n\":%ld,\"ok\":%d,\"target\":\"%s\",\"off\":%ld,\"cap\":%ld,\"own\":%d,\"werr\":%d}",
					   i ? "," : "", op, n, ok, target_name(e->target), (long) e->buffer.offset, (long) e->buffer.capacity,
					   (e->buffer.data != NULL && e->buffer.data == w_caller) ? 1 : 0, e->write_error);
	}
	return !e->write_error;
}

static vbi_export *probe_new(void) { return calloc(1, sizeof(vbi_export)); }
static void probe_delete(vbi_export *e) { free(e); }
static vbi_option_info *probe_option_enum(vbi_export *e, int index) { (void) e; (void) index; return NULL; }
static vbi_bool probe_option_get(vbi_export *e, const char *k, vbi_option_value *v) { (void) e; (void) k; (void) v; return FALSE; }
static vbi_bool probe_option_set(vbi_export *e, const char *k, va_list ap) { (void) e; (void) k; (void) ap; return FALSE; }
static vbi_export_info probe_info = { .keyword = "c16probe", .label = NULL, .tooltip = NULL, .mime_type = NULL, .extension = "bin" };
static vbi_export_class probe_class = { ._public = &probe_info, ._new = probe_new, ._delete = probe_delete,
	.option_enum = probe_option_enum, .option_get = probe_option_get, .option_set = probe_option_set, .export = probe_export };
static int probe_registered;

static void print_bytes(const unsigned char *p, long n)
{
	long i;
	printf("[");
	for (i = 0; i < n; i++) printf("%s%u", i ? "," : "", p[i]);
	printf("]");
}

static void cmd_write(char *line)
{
	char tname[16], *tok, *save = NULL;
	long size;
	int n = 0;
	vbi_export *e;
	vbi_page dummy;
	if (sscanf(line, "%15s %ld%n", tname, &size, &n) < 2) { printf("{\"w\":null}\n"); return; }
	w_nops = 0;
	for (tok = strtok_r(line + n, " \n", &save); tok && w_nops < 64; tok = strtok_r(NULL, " \n", &save))
		snprintf(w_ops[w_nops++], sizeof w_ops[0], "%s", tok);
	if (!probe_registered) {
		vbi_export_info_enum(0);                            /* make the library register its own modules first */
		vbi_register_export_module(&probe_class);
		probe_registered = 1;
	}
	e = vbi_export_new("c16probe", NULL);
	if (!e) { printf("{\"w\":null}\n"); return; }
	memset(&dummy, 0, sizeof dummy);
	w_made = 0; w_logn = 0; w_log[0] = 0; w_caller = NULL;
	if (!strcmp(tname, "mem")) {
		unsigned char *big = malloc(GUARD + size + GUARD);
		long ret, gb;
		fill_guard(big, GUARD + size + GUARD);
		w_caller = big + GUARD;
		ret = (long) vbi_export_mem(e, big + GUARD, size, &dummy);
		gb = guard_bad(big, 0, GUARD) + guard_bad(big, GUARD + size, GUARD + size + GUARD);
		printf("{\"w\":{\"begin\":{\"t\":\"MEM\",\"n\":%ld},\"ops\":[%s],\"end\":{\"ret\":%ld,\"guard\":%ld,\"made\":%ld,\"cmem\":", size, w_log, ret, gb, w_made);
		print_bytes(big + GUARD, ret >= 0 && ret < size ? ret : size);
		printf("}}}\n");
		free(big);
	} else if (!strcmp(tname, "alloc")) {
		void *b = NULL; size_t bl = (size_t) -1;                 /* on failure buffer and size remain unmodified */
		void *r = vbi_export_alloc(e, &b, &bl, &dummy);
		printf("{\"w\":{\"begin\":{\"t\":\"ALLOC\",\"n\":0},\"ops\":[%s],\"end\":{\"ok\":%d,\"made\":%ld,\"out\":", w_log, r != NULL || bl == 0, w_made);
		print_bytes(b, r ? (long) bl : 0);
		printf("}}}\n");
		free(r);
	} else if (!strcmp(tname, "stdio")) {
		char *mb = NULL; size_t ml = 0;
		FILE *fp = open_memstream(&mb, &ml);
		int ok = vbi_export_stdio(e, fp, &dummy);
		fclose(fp);
		printf("{\"w\":{\"begin\":{\"t\":\"FP\",\"n\":0},\"ops\":[%s],\"end\":{\"ok\":%d,\"made\":%ld,\"out\":", w_log, ok, w_made);
		print_bytes((unsigned char *) mb, (long) ml);
		printf("}}}\n");
		free(mb);
	} else {
		char name[600]; long fl; unsigned char *fb; int ok;
		snprintf(name, sizeof name, "%s/c16-%d.out", scratch, (int) getpid());
		ok = vbi_export_file(e, name, &dummy);
		fb = slurp(name, &fl);
		printf("{\"w\":{\"begin\":{\"t\":\"FILE\",\"n\":0},\"ops\":[%s],\"end\":{\"ok\":%d,\"made\":%ld,\"out\":", w_log, ok, w_made);
		print_bytes(fb, fl > 0 ? fl : 0);
		printf("}}}\n");
		free(fb); unlink(name);
	}
	vbi_export_delete(e);
}

/* ------------------------------------------------------------------ main */

int main(void)
{
	static char line[8192];
	const char *s = getenv("VERIF_SCRATCH");
	snprintf(scratch, sizeof scratch, "%s", s && *s ? s : ".");
	setvbuf(stdout, NULL, _IOFBF, 1 << 20);
	while (fgets(line, sizeof line, stdin)) {
		switch (line[0]) {
		case 'R':
			if (have_page) { vbi_unref_page(&pg); have_page = 0; }
			drop_refs();
			if (vbi) vbi_decoder_delete(vbi);
			vbi = vbi_decoder_new();
			vbi_event_handler_register(vbi, VBI_EVENT_TTX_PAGE | VBI_EVENT_CAPTION, handler, NULL);
			t = 1000.0;
			printf("{\"reset\":1}\n");
			break;
		case 'G':
			vbi_teletext_set_default_region(vbi, atoi(line + 1));
			break;
		case 'P': {
			vbi_sliced sl; int i; const char *p = line + 1;
			while (*p == ' ') p++;
			memset(&sl, 0, sizeof sl);
			sl.id = VBI_SLICED_TELETEXT_B; sl.line = 7;
			for (i = 0; i < 42; i++) { unsigned v = 0; sscanf(p + 2 * i, "%2x", &v); sl.data[i] = v; }
			vbi_decode(vbi, &sl, 1, t); t += 0.04;
			break;
		}
		case 'K': {
			vbi_sliced sl; unsigned a = 0x80, b = 0x80;
			memset(&sl, 0, sizeof sl);
			sscanf(line + 1, "%x %x", &a, &b);
			sl.id = VBI_SLICED_CAPTION_525; sl.line = 21; sl.data[0] = a; sl.data[1] = b;
			vbi_decode(vbi, &sl, 1, t); t += 1 / 29.97;
			break;
		}
		case 'f':
		case 'F': {
			unsigned pgno, subno; int level, rows, nav, ok;
			sscanf(line + 1, "%x %x %d %d %d", &pgno, &subno, &level, &rows, &nav);
			if (have_page) { vbi_unref_page(&pg); have_page = 0; }
			drop_refs();
			memset(&pg, 0, sizeof pg);
			ok = vbi_fetch_vt_page(vbi, &pg, pgno, subno, level == 1 ? VBI_WST_LEVEL_1 : level == 15 ? VBI_WST_LEVEL_1p5 :
					       level == 25 ? VBI_WST_LEVEL_2p5 : VBI_WST_LEVEL_3p5, rows, nav);
			if (ok) have_page = 1;
			if (line[0] == 'f') break;
			if (ok) print_page(); else printf("{\"page\":null}\n");
			break;
		}
		case 'c':
		case 'C': {
			int ch = atoi(line + 1), ok;
			if (have_page) { vbi_unref_page(&pg); have_page = 0; }
			drop_refs();
			memset(&pg, 0, sizeof pg);
			ok = vbi_fetch_cc_page(vbi, &pg, ch, 1);
			if (ok) have_page = 1;
			if (line[0] == 'c') break;
			if (ok) print_page(); else printf("{\"page\":null}\n");
			break;
		}
		case 'E': {
			char *tok, *save = NULL; int v[4], n = 0;
			if (!have_page) { printf("{\"page\":null}\n"); break; }
			drop_refs();
			for (tok = strtok_r(line + 1, " \n", &save); tok; tok = strtok_r(NULL, " \n", &save)) {
				v[n++] = atoi(tok);
				if (n == 4) {
					n = 0;
					if (v[0] >= 0 && v[0] < pg.rows && v[1] >= 0 && v[1] < pg.columns) {
						vbi_char *a = &pg.text[v[0] * pg.columns + v[1]];
						a->size = v[2]; a->conceal = v[3] & 1; a->flash = (v[3] >> 1) & 1;
					}
				}
			}
			print_page();
			break;
		}
		case 'X': cmd_export(line + 1); break;
		case 'T': cmd_print(line + 1); break;
		case 'D': cmd_draw(line + 1); break;
		case 'W': cmd_write(line + 1); break;
		case 'Z': {                                         /* Z <module> <file> <opts|-> : export to a file that is kept (for inspection, silent) */
			char mod[64], path[400], opts[512];
			if (sscanf(line + 1, "%63s %399s %511s", mod, path, opts) == 3 && have_page) {
				vbi_export *e = vbi_export_new(mod, NULL);
				if (e) { set_options(e, opts); printf("\"keep\":%d\n", vbi_export_file(e, path, &pg)); vbi_export_delete(e); }
			}
			break;
		}
		}
	}
	if (have_page) vbi_unref_page(&pg);
	drop_refs();
	if (vbi) vbi_decoder_delete(vbi);
	fflush(stdout);
	return 0;
}
