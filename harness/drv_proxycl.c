/* Client-side executor for the proxy checks (C18, C19): well-behaved proxy clients through the real
 * client library (src/proxy-client.c) in up to 8 slots, driven line by line.  It prints what a client
 * application can observe (return values, granted services, frames with timestamp / line ids / payload,
 * callback events).  No expectation lives here.  It also prints the layout of the wire messages
 * (sizeof / offsetof of src/proxy-msg.h) for the raw-socket clients of lib/vlib/proxy.py.
 *
 * stdin (one reply line of JSON per command):
 *   L                                     message layout
 *   N slot devname flags                  vbi_proxy_client_create + set_callback
 *   S slot services strict buffers scan   vbi_capture_proxy_new (services 0: p_services = NULL)
 *   R slot timeout_ms                     vbi_capture_pull_sliced
 *   U slot reset commit services strict   vbi_capture_update_services
 *   T slot prio is_valid sub_prio min_dur vbi_proxy_client_channel_request
 *   Y slot flags scanning                 vbi_proxy_client_channel_notify
 *   H slot                                vbi_proxy_client_has_channel_control
 *   X slot                                vbi_capture_delete (closes the connection)
 *   D slot                                vbi_proxy_client_destroy
 */
#include <stdio.h>
#include <stdlib.h>
#include <string.h>
#include <stddef.h>
#include <errno.h>
#include <sys/time.h>
#include "config.h"
#include "src/vbi.h"
#include "src/inout.h"
#include "src/proxy-msg.h"
#include "src/proxy-client.h"

#define NSLOT 8
static struct {
	vbi_proxy_client *vpc;
	vbi_capture *cap;
	unsigned ev;		/* callback events since the last reply */
	unsigned ncb;
} sl[NSLOT];

static void cb(void *ud, VBI_PROXY_EV_TYPE ev)
{
	int i = (int)(long) ud;
	sl[i].ev |= ev;
	sl[i].ncb++;
}

static void jstr(const char *s)
{
	putchar('"');
	for (; s && *s; s++) {
		if (*s == '"' || *s == '\\') putchar('\\');
		if ((unsigned char) *s >= 32) putchar(*s);
	}
	putchar('"');
}

static void tail(int i)
{
	printf(",\"ev\":%u,\"ncb\":%u}\n", sl[i].ev, sl[i].ncb);
	sl[i].ev = 0; sl[i].ncb = 0;
	fflush(stdout);
}

#define SZ(T)     printf("\"sizeof_" #T "\":%u,", (unsigned) sizeof(T))
#define OFF(T, F) printf("\"" #T "." #F "\":%u,", (unsigned) offsetof(T, F))

static void layout(void)
{
	printf("{");
	SZ(VBIPROXY_MSG_HEADER); SZ(VBIPROXY_MAGICS); SZ(VBIPROXY_CONNECT_REQ); SZ(VBIPROXY_CONNECT_CNF);
	SZ(VBIPROXY_CONNECT_REJ); SZ(VBIPROXY_SLICED_IND); SZ(VBIPROXY_SERVICE_REQ); SZ(VBIPROXY_SERVICE_CNF);
	SZ(VBIPROXY_SERVICE_REJ); SZ(VBIPROXY_CHN_TOKEN_REQ); SZ(VBIPROXY_CHN_TOKEN_CNF); SZ(VBIPROXY_CHN_TOKEN_IND);
	SZ(VBIPROXY_CHN_NOTIFY_REQ); SZ(VBIPROXY_CHN_NOTIFY_CNF); SZ(VBIPROXY_CHN_SUSPEND_REQ);
	SZ(VBIPROXY_CHN_SUSPEND_REJ); SZ(VBIPROXY_CHN_IOCTL_REQ); SZ(VBIPROXY_CHN_IOCTL_CNF); SZ(VBIPROXY_CHN_IOCTL_REJ);
	SZ(VBIPROXY_CHN_RECLAIM_REQ); SZ(VBIPROXY_CHN_RECLAIM_CNF); SZ(VBIPROXY_CHN_CHANGE_IND);
	SZ(VBIPROXY_DAEMON_PID_REQ); SZ(VBIPROXY_DAEMON_PID_CNF); SZ(VBIPROXY_MSG_BODY); SZ(VBIPROXY_MSG);
	SZ(vbi_sliced); SZ(vbi_channel_profile); SZ(vbi_raw_decoder); SZ(time_t);
	OFF(VBIPROXY_MAGICS, protocol_magic); OFF(VBIPROXY_MAGICS, protocol_compat_version);
	OFF(VBIPROXY_MAGICS, protocol_version); OFF(VBIPROXY_MAGICS, endian_magic);
	OFF(VBIPROXY_CONNECT_REQ, magics); OFF(VBIPROXY_CONNECT_REQ, client_name); OFF(VBIPROXY_CONNECT_REQ, pid);
	OFF(VBIPROXY_CONNECT_REQ, client_flags); OFF(VBIPROXY_CONNECT_REQ, scanning);
	OFF(VBIPROXY_CONNECT_REQ, buffer_count); OFF(VBIPROXY_CONNECT_REQ, services); OFF(VBIPROXY_CONNECT_REQ, strict);
	OFF(VBIPROXY_CONNECT_REQ, reserved);
	OFF(VBIPROXY_CONNECT_CNF, magics); OFF(VBIPROXY_CONNECT_CNF, dev_vbi_name); OFF(VBIPROXY_CONNECT_CNF, pid);
	OFF(VBIPROXY_CONNECT_CNF, vbi_api_revision); OFF(VBIPROXY_CONNECT_CNF, daemon_flags);
	OFF(VBIPROXY_CONNECT_CNF, services); OFF(VBIPROXY_CONNECT_CNF, dec);
	OFF(VBIPROXY_CONNECT_REJ, errorstr);
	OFF(VBIPROXY_SLICED_IND, timestamp); OFF(VBIPROXY_SLICED_IND, sliced_lines); OFF(VBIPROXY_SLICED_IND, raw_lines);
	OFF(VBIPROXY_SLICED_IND, u);
	OFF(VBIPROXY_SERVICE_REQ, reset); OFF(VBIPROXY_SERVICE_REQ, commit); OFF(VBIPROXY_SERVICE_REQ, strict);
	OFF(VBIPROXY_SERVICE_REQ, services);
	OFF(VBIPROXY_SERVICE_CNF, services); OFF(VBIPROXY_SERVICE_CNF, dec); OFF(VBIPROXY_SERVICE_REJ, errorstr);
	OFF(VBIPROXY_CHN_TOKEN_REQ, chn_prio); OFF(VBIPROXY_CHN_TOKEN_REQ, chn_profile);
	OFF(vbi_channel_profile, is_valid); OFF(vbi_channel_profile, sub_prio); OFF(vbi_channel_profile, allow_suspend);
	OFF(vbi_channel_profile, min_duration); OFF(vbi_channel_profile, exp_duration);
	OFF(VBIPROXY_CHN_TOKEN_CNF, token_ind); OFF(VBIPROXY_CHN_TOKEN_CNF, permitted); OFF(VBIPROXY_CHN_TOKEN_CNF, non_excl);
	OFF(VBIPROXY_CHN_NOTIFY_REQ, notify_flags); OFF(VBIPROXY_CHN_NOTIFY_REQ, scanning); OFF(VBIPROXY_CHN_NOTIFY_REQ, cause);
	OFF(VBIPROXY_CHN_NOTIFY_CNF, scanning);
	OFF(VBIPROXY_CHN_IOCTL_REQ, request); OFF(VBIPROXY_CHN_IOCTL_REQ, arg_size); OFF(VBIPROXY_CHN_IOCTL_REQ, arg_data);
	OFF(VBIPROXY_CHN_IOCTL_CNF, result); OFF(VBIPROXY_CHN_IOCTL_CNF, errcode); OFF(VBIPROXY_CHN_IOCTL_CNF, arg_size);
	OFF(VBIPROXY_CHN_CHANGE_IND, notify_flags); OFF(VBIPROXY_CHN_CHANGE_IND, scanning);
	OFF(VBIPROXY_DAEMON_PID_REQ, magics); OFF(VBIPROXY_DAEMON_PID_CNF, magics); OFF(VBIPROXY_DAEMON_PID_CNF, pid);
	OFF(vbi_sliced, id); OFF(vbi_sliced, line); OFF(vbi_sliced, data);
	OFF(vbi_raw_decoder, scanning); OFF(vbi_raw_decoder, start); OFF(vbi_raw_decoder, count);
	OFF(VBIPROXY_MSG, body);
	printf("\"compat_version\":%u,\"version\":%u,\"endian_magic\":%u,\"magic\":\"%s\",\"msg_type_count\":%d}\n",
	       (unsigned) VBIPROXY_COMPAT_VERSION, (unsigned) VBIPROXY_VERSION, (unsigned) VBIPROXY_ENDIAN_MAGIC,
	       VBIPROXY_MAGIC_STR, (int) MSG_TYPE_COUNT);
	fflush(stdout);
}

int main(void)
{
	char line[512];

	setvbuf(stdout, NULL, _IOFBF, 1 << 16);
	while (fgets(line, sizeof line, stdin)) {
		int i = 0;
		char c = line[0];

		if (c == 'L') { layout(); continue; }
		if (c == 'Q') break;
		if (sscanf(line + 1, "%d", &i) != 1 || i < 0 || i >= NSLOT) {
			printf("{\"error\":\"bad slot\"}\n"); fflush(stdout); continue;
		}
		if (c == 'N') {
			char dev[300]; unsigned flags = 0; char *err = NULL; char name[32];
			sscanf(line + 1, "%d %299s %u", &i, dev, &flags);
			snprintf(name, sizeof name, "verif-%d", i);
			sl[i].vpc = vbi_proxy_client_create(dev, name, flags, &err, 0);
			sl[i].cap = NULL;
			if (sl[i].vpc)
				vbi_proxy_client_set_callback(sl[i].vpc, cb, (void *)(long) i);
			printf("{\"a\":\"N\",\"ok\":%d", sl[i].vpc != NULL);
			tail(i);
			free(err);
		} else if (!sl[i].vpc) {
			printf("{\"error\":\"no client in slot\"}\n"); fflush(stdout);
		} else if (c == 'S') {
			unsigned services = 0, granted; int strict = 0, buffers = 1, scanning = 625; char *err = NULL;
			vbi_raw_decoder *dec;
			sscanf(line + 1, "%d %u %d %d %d", &i, &services, &strict, &buffers, &scanning);
			granted = services;
			sl[i].cap = vbi_capture_proxy_new(sl[i].vpc, buffers, scanning, services ? &granted : NULL, strict, &err);
			if (!services) granted = 0;
			printf("{\"a\":\"S\",\"cap\":%d,\"granted\":%u,\"err\":", sl[i].cap != NULL, sl[i].cap ? granted : 0);
			jstr(err);
			if (sl[i].cap && (dec = vbi_capture_parameters(sl[i].cap)))
				printf(",\"fd\":%d,\"start\":[%d,%d],\"count\":[%d,%d],\"scanning\":%d", vbi_capture_fd(sl[i].cap),
				       dec->start[0], dec->start[1], dec->count[0], dec->count[1], dec->scanning);
			tail(i);
			free(err);
		} else if (c == 'R') {
			int ms = 1000, r, n, k, j;
			struct timeval tv;
			vbi_capture_buffer *buf = NULL;
			vbi_capture *cap = sl[i].cap ? sl[i].cap : vbi_proxy_client_get_capture_if(sl[i].vpc);
			sscanf(line + 1, "%d %d", &i, &ms);
			tv.tv_sec = ms / 1000; tv.tv_usec = (ms % 1000) * 1000;
			errno = 0;
			r = vbi_capture_pull_sliced(cap, &buf, &tv);
			printf("{\"a\":\"R\",\"r\":%d,\"errno\":%d", r, r < 0 ? errno : 0);
			if (r > 0 && buf) {
				vbi_sliced *s = (vbi_sliced *) buf->data;
				n = buf->size / sizeof(vbi_sliced);
				printf(",\"ts\":%.0f,\"lines\":[", buf->timestamp);
				for (k = 0; k < n; k++) {
					printf("%s[%u,%u,\"", k ? "," : "", s[k].id, s[k].line);
					for (j = 0; j < (int) sizeof(s[k].data); j++)
						printf("%02x", s[k].data[j]);
					printf("\"]");
				}
				printf("]");
			}
			tail(i);
		} else if (c == 'U') {
			unsigned reset = 0, commit = 1, services = 0, g; int strict = 0; char *err = NULL;
			vbi_raw_decoder *dec;
			vbi_capture *cap = sl[i].cap ? sl[i].cap : vbi_proxy_client_get_capture_if(sl[i].vpc);
			sscanf(line + 1, "%d %u %u %u %d", &i, &reset, &commit, &services, &strict);
			g = vbi_capture_update_services(cap, reset, commit, services, strict, &err);
			printf("{\"a\":\"U\",\"granted\":%u,\"err\":", g);
			jstr(err);
			if ((dec = vbi_capture_parameters(cap)))
				printf(",\"start\":[%d,%d],\"count\":[%d,%d],\"fd\":%d", dec->start[0], dec->start[1],
				       dec->count[0], dec->count[1], vbi_capture_fd(cap));
			tail(i);
			free(err);
		} else if (c == 'T') {
			unsigned prio = 1, valid = 1, sub = 0; long dur = 0; int r;
			vbi_channel_profile prof;
			sscanf(line + 1, "%d %u %u %u %ld", &i, &prio, &valid, &sub, &dur);
			memset(&prof, 0, sizeof prof);
			prof.is_valid = valid; prof.sub_prio = sub; prof.min_duration = dur; prof.exp_duration = dur;
			r = vbi_proxy_client_channel_request(sl[i].vpc, prio, &prof);
			printf("{\"a\":\"T\",\"r\":%d,\"has\":%d", r, vbi_proxy_client_has_channel_control(sl[i].vpc));
			tail(i);
		} else if (c == 'Y') {
			unsigned flags = 0, scanning = 0; int r;
			sscanf(line + 1, "%d %u %u", &i, &flags, &scanning);
			r = vbi_proxy_client_channel_notify(sl[i].vpc, flags, scanning);
			printf("{\"a\":\"Y\",\"r\":%d,\"has\":%d", r, vbi_proxy_client_has_channel_control(sl[i].vpc));
			tail(i);
		} else if (c == 'H') {
			printf("{\"a\":\"H\",\"has\":%d", vbi_proxy_client_has_channel_control(sl[i].vpc));
			tail(i);
		} else if (c == 'X') {
			if (sl[i].cap) vbi_capture_delete(sl[i].cap);
			else vbi_capture_delete(vbi_proxy_client_get_capture_if(sl[i].vpc));
			sl[i].cap = NULL;
			printf("{\"a\":\"X\",\"ok\":1");
			tail(i);
		} else if (c == 'D') {
			vbi_proxy_client_destroy(sl[i].vpc);
			sl[i].vpc = NULL; sl[i].cap = NULL;
			printf("{\"a\":\"D\",\"ok\":1");
			tail(i);
		} else {
			printf("{\"error\":\"unknown command\"}\n"); fflush(stdout);
		}
	}
	return 0;
}
