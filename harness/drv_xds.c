/* Executor for Xds behaviours (C09): feeds byte pairs to vbi_xds_demux_feed() (mode "demux")
 * or to vbi_decode() as Caption 525 line 284 (mode "decode") and prints, after every pair,
 * what became observable.  No expectation lives here.
 *
 * stdin:   R            reset (fresh demultiplexer / decoder)
 *          F xx yy      feed one pair (bytes as transmitted, parity included)
 * stdout:  one JSON line per F:
 *   demux : {"d":[[class,type,[bytes...]],...],"r":ret}
 *   decode: {"info":[[cls,line,[bytes...]],...],"evs":[n_current,n_future]}
 */
#include <stdio.h>
#include <stdlib.h>
#include <string.h>
#include "config.h"
#include "src/vbi.h"
#include "src/xds_demux.h"

static int n_d;
static struct { int cls, typ, n; uint8_t b[64]; } dl[16];
static int evs[2];

static vbi_bool cb(vbi_xds_demux *xd, const vbi_xds_packet *xp, void *ud)
{
	(void) xd; (void) ud;
	if (n_d < 16) {
		dl[n_d].cls = xp->xds_class;
		dl[n_d].typ = xp->xds_subclass;
		dl[n_d].n = xp->buffer_size;
		memcpy(dl[n_d].b, xp->buffer, xp->buffer_size > 64 ? 64 : xp->buffer_size);
		n_d++;
	}
	return TRUE;
}

static void ev_handler(vbi_event *ev, void *ud)
{
	(void) ud;
	if (ev->type == VBI_EVENT_PROG_INFO)
		evs[ev->ev.prog_info->future ? 1 : 0]++;
}

int main(int argc, char **argv)
{
	int decode = argc > 1 && 0 == strcmp(argv[1], "decode");
	vbi_xds_demux *xd = NULL;
	vbi_decoder *vbi = NULL;
	double t = 1000.0;
	char line[256];

	setvbuf(stdout, NULL, _IOFBF, 1 << 16);
	while (fgets(line, sizeof line, stdin)) {
		if (line[0] == 'R') {
			if (xd) vbi_xds_demux_delete(xd);
			if (vbi) vbi_decoder_delete(vbi);
			xd = NULL; vbi = NULL;
			evs[0] = evs[1] = 0;
			if (decode) {
				vbi = vbi_decoder_new();
				vbi_event_handler_register(vbi, VBI_EVENT_PROG_INFO | VBI_EVENT_ASPECT,
							   ev_handler, NULL);
			} else {
				xd = vbi_xds_demux_new(cb, NULL);
			}
			t = 1000.0;
			printf("{\"reset\":1}\n");
		} else if (line[0] == 'F') {
			unsigned a, b;
			uint8_t buf[2];
			int i, j;
			if (sscanf(line + 1, "%x %x", &a, &b) != 2) continue;
			buf[0] = a; buf[1] = b;
			if (!decode) {
				int r;
				n_d = 0;
				r = vbi_xds_demux_feed(xd, buf);
				printf("{\"d\":[");
				for (i = 0; i < n_d; i++) {
					printf("%s[%d,%d,[", i ? "," : "", dl[i].cls, dl[i].typ);
					for (j = 0; j < dl[i].n; j++)
						printf("%s%d", j ? "," : "", dl[i].b[j]);
					printf("]]");
				}
				printf("],\"r\":%d}\n", r);
			} else {
				vbi_sliced s;
				int c, l;
				memset(&s, 0, sizeof s);
				s.id = VBI_SLICED_CAPTION_525;
				s.line = 284;
				s.data[0] = buf[0]; s.data[1] = buf[1];
				vbi_decode(vbi, &s, 1, t);
				t += 1 / 29.97;
				printf("{\"info\":[");
				for (c = 0, i = 0; c < 2; c++)
					for (l = 0; l < 8; l++) {
						const signed char *d = vbi->prog_info[c].description[l];
						if (!d[0]) continue;
						printf("%s[%d,%d,[", i++ ? "," : "", c, l);
						for (j = 0; d[j]; j++)
							printf("%s%d", j ? "," : "", (unsigned char) d[j]);
						printf("]]");
					}
				printf("],\"evs\":[%d,%d]}\n", evs[0], evs[1]);
			}
		}
	}
	if (xd) vbi_xds_demux_delete(xd);
	if (vbi) vbi_decoder_delete(vbi);
	return 0;
}
