/* Teletext transmitter for the drivers: builds real 42-byte packets (Hamming 8/4, odd parity)
 * and feeds them to vbi_decode() with timestamps advancing by one frame.
 * No decoding logic here: only the encoding side of EN 300 706. */
#ifndef TTX_TX_H
#define TTX_TX_H

#include <string.h>
#include <stdint.h>
#include "src/vbi.h"
#include "src/hamm.h"

/* control bits as they appear in the 24-bit "flags << 16 + subpage" word of the decoder */
#define TX_C4_ERASE      0x000080
#define TX_C5_NEWSFLASH  0x004000
#define TX_C6_SUBTITLE   0x008000
#define TX_C7_SUPPRESS   0x010000
#define TX_C8_UPDATE     0x020000
#define TX_C9_INTERRUPT  0x040000
#define TX_C10_INHIBIT   0x080000
#define TX_C11_SERIAL    0x100000

typedef struct {
	vbi_decoder *vbi;
	double t;
	int line;
	long n_sent;
} ttx_tx;

static inline void ttx_tx_init(ttx_tx *tx, vbi_decoder *vbi)
{
	tx->vbi = vbi; tx->t = 1000.0; tx->line = 7; tx->n_sent = 0;
}

/* feed one packet as one frame (timestamps must advance by 0.04 s or the decoder desyncs) */
static inline void ttx_tx_send(ttx_tx *tx, const uint8_t pkt[42])
{
	vbi_sliced s;
	memset(&s, 0, sizeof s);
	s.id = VBI_SLICED_TELETEXT_B;
	s.line = 7;
	memcpy(s.data, pkt, 42);
	vbi_decode(tx->vbi, &s, 1, tx->t);
	tx->t += 0.04;
	tx->n_sent++;
}

static inline void ttx_mrag(uint8_t *pkt, int mag /*1..8*/, int packet /*0..31*/)
{
	int m = mag & 7;
	pkt[0] = vbi_ham8(m | ((packet & 1) << 3));
	pkt[1] = vbi_ham8(packet >> 1);
}

/* national: 0..7 (C12..C14 value as the decoder reports it in cache_page.national) */
static inline void
ttx_mk_header(uint8_t pkt[42], int pgno /*0x100..0x8FF*/, int subno, unsigned flags,
	      int national, const char *text24 /* NULL: default */)
{
	int mag = (pgno >> 8) & 7, page = pgno & 0xFF, i;
	unsigned c7_14;
	char txt[33];
	ttx_mrag(pkt, mag ? mag : 8, 0);
	pkt[2] = vbi_ham8(page & 15);
	pkt[3] = vbi_ham8(page >> 4);
	pkt[4] = vbi_ham8(subno & 15);
	pkt[5] = vbi_ham8(((subno >> 4) & 7) | ((flags & TX_C4_ERASE) ? 8 : 0));
	pkt[6] = vbi_ham8((subno >> 8) & 15);
	pkt[7] = vbi_ham8(((subno >> 12) & 3) | ((flags & TX_C5_NEWSFLASH) ? 4 : 0)
			  | ((flags & TX_C6_SUBTITLE) ? 8 : 0));
	c7_14 = (flags >> 16) & 0x1F;
	/* the decoder computes national = vbi_rev8(flags) & 7 : C12 is the msb of the subset number */
	c7_14 |= ((national & 4) ? 0x20 : 0) | ((national & 2) ? 0x40 : 0) | ((national & 1) ? 0x80 : 0);
	pkt[8] = vbi_ham8(c7_14 & 15);
	pkt[9] = vbi_ham8(c7_14 >> 4);
	/* 24 bytes of text holding the page number once, then an 8 byte clock which never changes */
	snprintf(txt, sizeof txt, "%-24.24s", text24 ? text24 : " XXX ZVBI VERIF TEXT    ");
	if (!text24) {
		txt[1] = '0' + (pgno >> 8);
		txt[2] = '0' + ((pgno >> 4) & 15);
		txt[3] = '0' + (pgno & 15);
	}
	memcpy(txt + 24, "12:00:00", 8);
	for (i = 0; i < 32; i++)
		pkt[10 + i] = vbi_par8((uint8_t) txt[i] & 0x7F);
}

/* codes: 40 seven-bit codes; odd parity is added here */
static inline void ttx_mk_row(uint8_t pkt[42], int mag /*1..8*/, int row, const uint8_t codes[40])
{
	int i;
	ttx_mrag(pkt, mag, row);
	for (i = 0; i < 40; i++)
		pkt[2 + i] = vbi_par8(codes[i] & 0x7F);
}

static inline void ttx_send_header(ttx_tx *tx, int pgno, int subno, unsigned flags, int national)
{
	uint8_t pkt[42];
	ttx_mk_header(pkt, pgno, subno, flags, national, NULL);
	ttx_tx_send(tx, pkt);
}

static inline void ttx_send_text_row(ttx_tx *tx, int mag, int row, const char *text)
{
	uint8_t codes[40], pkt[42];
	size_t n = strlen(text), i;
	for (i = 0; i < 40; i++)
		codes[i] = i < n ? (uint8_t) text[i] : 0x20;
	ttx_mk_row(pkt, mag, row, codes);
	ttx_tx_send(tx, pkt);
}

/* time filling header mFF terminates the page in progress of that magazine */
static inline void ttx_send_filler(ttx_tx *tx, int mag /*1..8*/)
{
	ttx_send_header(tx, ((mag & 7) ? (mag & 7) : 8) * 0x100 + 0xFF, 0x3F7F, 0, 0);
}

#endif
