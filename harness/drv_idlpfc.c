/* Executor for IdlA / Pfc behaviours (C15): feeds raw 42-byte Teletext packets to
 * vbi_idl_demux_feed() or vbi_pfc_demux_feed() and prints what the callback received.
 * stdin:  R idl <channel> <address> | R pfc <pgno-hex> <stream>   fresh demultiplexer
 *         F <84 hex digits>                                          one packet
 */
#include <stdio.h>
#include <stdlib.h>
#include <string.h>
#include "config.h"
#include "src/misc.h"
#include "src/idl_demux.h"
#include "src/pfc_demux.h"

static vbi_idl_demux *idl;
static vbi_pfc_demux *pfc;
static char out[1 << 16];
static int on, first;

static void hexbytes(const uint8_t *b, unsigned n)
{
	unsigned i;
	on += snprintf(out + on, sizeof out - on, "[");
	for (i = 0; i < n && on < (int) sizeof out - 16; i++)
		on += snprintf(out + on, sizeof out - on, "%s%u", i ? "," : "", b[i]);
	on += snprintf(out + on, sizeof out - on, "]");
}

static vbi_bool idl_cb(vbi_idl_demux *dx, const uint8_t *buffer, unsigned int n_bytes, unsigned int flags, void *ud)
{
	(void) dx; (void) ud;
	on += snprintf(out + on, sizeof out - on, "%s{\"n\":%u,\"flags\":%u,\"bytes\":", first ? "" : ",", n_bytes, flags);
	hexbytes(buffer, n_bytes);
	on += snprintf(out + on, sizeof out - on, "}");
	first = 0;
	return TRUE;
}

static vbi_bool pfc_cb(vbi_pfc_demux *dx, void *ud, const vbi_pfc_block *b)
{
	(void) dx; (void) ud;
	on += snprintf(out + on, sizeof out - on, "%s{\"pgno\":%d,\"stream\":%u,\"app\":%u,\"size\":%u,\"bytes\":", first ? "" : ",",
		       b->pgno, b->stream, b->application_id, b->block_size);
	hexbytes(b->block, b->block_size);
	on += snprintf(out + on, sizeof out - on, "}");
	first = 0;
	return TRUE;
}

int main(void)
{
	char line[512], kind[8];
	setvbuf(stdout, NULL, _IOFBF, 1 << 16);
	while (fgets(line, sizeof line, stdin)) {
		unsigned a, b;
		if (line[0] == 'R') {
			if (idl) vbi_idl_demux_delete(idl);
			if (pfc) vbi_pfc_demux_delete(pfc);
			idl = NULL; pfc = NULL;
			sscanf(line + 1, "%7s %x %u", kind, &a, &b);
			if (kind[0] == 'i') idl = vbi_idl_a_demux_new(a, b, idl_cb, NULL);
			else pfc = vbi_pfc_demux_new(a, b, pfc_cb, NULL);
			printf("{\"reset\":1}\n");
		} else if (line[0] == 'F') {
			uint8_t pkt[42];
			int i, r;
			const char *p = line + 1;
			while (*p == ' ') p++;
			for (i = 0; i < 42; i++) { unsigned v = 0; sscanf(p + 2 * i, "%2x", &v); pkt[i] = v; }
			on = 0; first = 1; out[0] = 0;
			r = idl ? vbi_idl_demux_feed(idl, pkt) : vbi_pfc_demux_feed(pfc, pkt);
			printf("{\"r\":%d,\"d\":[%s]}\n", r, out);
		}
	}
	if (idl) vbi_idl_demux_delete(idl);
	if (pfc) vbi_pfc_demux_delete(pfc);
	return 0;
}
