/* Executor for CcDisplay behaviours (C08): feeds caption byte pairs through vbi_decode() (line 21 =
 * field 1, line 284 = field 2) and prints, after every pair, the caption events and every cell of
 * the pages of CC1..CC4, T1..T4 (all 34 columns: column 0 and 33 are the margins) that is not a blank
 * cell, as vbi_fetch_cc_page() returns them.  No expectation here.  To keep the lines short the blank
 * cells are left out; what a blank cell is depends on the page: "so" gives the screen_opacity of every
 * page as fetched, on a page with a transparent screen (captions) the transparent spaces are left out,
 * on a page with an opaque screen (text) the plain white-on-black opaque spaces without attributes.
 * stdin: R | P <field 1|2> <b1 hex> <b2 hex>
 * stdout per P: {"ev":[pgno...],"so":[screen opacity x8],"pg":[[ [row,col,unicode,fg,ul,it,fl,opacity,bg],... ] x8]}
 */
#include <stdio.h>
#include <stdlib.h>
#include <string.h>
#include "config.h"
#include "src/vbi.h"

static vbi_decoder *vbi;
static double t;
static int nev, evs[64];

static void handler(vbi_event *ev, void *ud)
{
	(void) ud;
	if (ev->type == VBI_EVENT_CAPTION && nev < 64) evs[nev++] = ev->ev.caption.pgno;
}

int main(void)
{
	char line[256];
	setvbuf(stdout, NULL, _IOFBF, 1 << 18);
	while (fgets(line, sizeof line, stdin)) {
		if (line[0] == 'R') {
			if (vbi) vbi_decoder_delete(vbi);
			vbi = vbi_decoder_new();
			vbi_event_handler_register(vbi, VBI_EVENT_CAPTION, handler, NULL);
			t = 1000.0;
			printf("{\"reset\":1}\n");
		} else if (line[0] == 'P') {
			unsigned f, a, b;
			int i, p, r, c;
			static vbi_page pgs[9];
			int ok[9];
			vbi_sliced s;
			sscanf(line + 1, "%u %x %x", &f, &a, &b);
			memset(&s, 0, sizeof s);
			s.id = VBI_SLICED_CAPTION_525;
			s.line = f == 1 ? 21 : 284;
			s.data[0] = a; s.data[1] = b;
			nev = 0;
			vbi_decode(vbi, &s, 1, t);
			t += 1 / 29.97;
			printf("{\"ev\":[");
			for (i = 0; i < nev; i++) printf("%s%d", i ? "," : "", evs[i]);
			printf("],\"so\":[");
			for (p = 1; p <= 8; p++) {
				ok[p] = vbi_fetch_cc_page(vbi, &pgs[p], p, 0);
				printf("%s%d", p > 1 ? "," : "", ok[p] ? (int) pgs[p].screen_opacity : -1);
			}
			printf("],\"pg\":[");
			for (p = 1; p <= 8; p++) {
				vbi_page *pg = &pgs[p];
				int first = 1;
				printf("%s[", p > 1 ? "," : "");
				if (ok[p])
					for (r = 0; r < pg->rows; r++)
						for (c = 0; c < pg->columns; c++) {
							vbi_char *x = &pg->text[r * pg->columns + c];
							if (pg->screen_opacity == VBI_TRANSPARENT_SPACE) {
								if (x->unicode == 0x20 && x->opacity == VBI_TRANSPARENT_SPACE) continue;
							} else if (x->unicode == 0x20 && x->opacity == VBI_OPAQUE && x->background == VBI_BLACK
								   && x->foreground == VBI_WHITE && !x->underline && !x->italic && !x->flash) continue;
							printf("%s[%d,%d,%u,%u,%u,%u,%u,%u,%u]", first ? "" : ",", r, c, x->unicode,
							       x->foreground, x->underline, x->italic, x->flash, x->opacity, x->background);
							first = 0;
						}
				printf("]");
			}
			printf("]}\n");
		}
	}
	if (vbi) vbi_decoder_delete(vbi);
	return 0;
}
