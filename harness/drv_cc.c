/* Executor for CcDisplay behaviours (C08): feeds caption byte pairs through vbi_decode() (line 21 =
 * field 1, line 284 = field 2) and prints, after every pair, the caption events and every cell of
 * the pages of CC1..CC4 (all 34 columns: column 0 and 33 are the margins) that is not a transparent
 * space, as vbi_fetch_cc_page() returns them.  No expectation here.
 * stdin: R | P <field 1|2> <b1 hex> <b2 hex>
 * stdout per P: {"ev":[pgno...],"pg":[[ [row,col,unicode,fg,ul,it,fl,opacity,bg],... ] x4]}
 */
#include <stdio.h>
#include <stdlib.h>
#include <string.h>
#include "config.h"
#include "src/vbi.h"

static vbi_decoder *vbi;
static double t;
static int nev, evs[64];

static void handler(vbi_event *ev, void *ud)
{
	(void) ud;
	if (ev->type == VBI_EVENT_CAPTION && nev < 64) evs[nev++] = ev->ev.caption.pgno;
}

int main(void)
{
	char line[256];
	setvbuf(stdout, NULL, _IOFBF, 1 << 18);
	while (fgets(line, sizeof line, stdin)) {
		if (line[0] == 'R') {
			if (vbi) vbi_decoder_delete(vbi);
			vbi = vbi_decoder_new();
			vbi_event_handler_register(vbi, VBI_EVENT_CAPTION, handler, NULL);
			t = 1000.0;
			printf("{\"reset\":1}\n");
		} else if (line[0] == 'P') {
			unsigned f, a, b;
			int i, p, r, c;
			vbi_sliced s;
			sscanf(line + 1, "%u %x %x", &f, &a, &b);
			memset(&s, 0, sizeof s);
			s.id = VBI_SLICED_CAPTION_525;
			s.line = f == 1 ? 21 : 284;
			s.data[0] = a; s.data[1] = b;
			nev = 0;
			vbi_decode(vbi, &s, 1, t);
			t += 1 / 29.97;
			printf("{\"ev\":[");
			for (i = 0; i < nev; i++) printf("%s%d", i ? "," : "", evs[i]);
			printf("],\"pg\":[");
			for (p = 1; p <= 4; p++) {
				static vbi_page pg;
				int first = 1;
				printf("%s[", p > 1 ? "," : "");
				if (vbi_fetch_cc_page(vbi, &pg, p, 0))
					for (r = 0; r < pg.rows; r++)
						for (c = 0; c < pg.columns; c++) {
							vbi_char *x = &pg.text[r * pg.columns + c];
							if (x->unicode == 0x20 && x->opacity == VBI_TRANSPARENT_SPACE) continue;
							printf("%s[%d,%d,%u,%u,%u,%u,%u,%u,%u]", first ? "" : ",", r, c, x->unicode,
							       x->foreground, x->underline, x->italic, x->flash, x->opacity, x->background);
							first = 0;
						}
				printf("]");
			}
			printf("]}\n");
		}
	}
	if (vbi) vbi_decoder_delete(vbi);
	return 0;
}
