/* Multi-threaded driver for C20 (documented cross-thread use of the service decoder and of the
 * legacy raw decoder).  It only calls the library and records what is observable; there is no
 * expectation and no second implementation of anything here.
 *
 *   drv_locks <script> <log.ndjson>
 *
 * script (text):
 *   M cc | ccseq | rd         mode: service decoder concurrent / the same byte stream single-threaded / raw decoder
 *   S <seed>
 *   N <nfetch> <nswitch> <handlerfetch> <nswreq>       (cc)   fetching threads, switching threads, handlers fetch, requests
 *   N <nmod> <ncheck> <ndecodes> <nops>                (rd)   threads changing services, checking threads, decodes, ops per thread
 *   J <j> ...                 (ccseq) request a channel switch right after the j-th chswcd_mutex section of the decoding thread
 *   T <dt_us>                 time step of the next frame in microseconds (default 33367; outside 25000..50000 = dropped frames)
 *   P <line> <b1> <b2>        one frame with one caption line (hex bytes)
 *   X <84 hex digits>         one frame with one Teletext line
 *   E                         one frame without data
 *
 * Recorded events (one JSON object per line, totally ordered by "seq"):
 *   lock/unlock/trylock of the library's mutexes - observed through -Wl,--wrap=pthread_mutex_lock,... so that a lock call
 *     deleted from the source is simply absent; the sequence number is taken while the mutex is held (after the real
 *     lock, before the real unlock).  unlock carries what the holder can see of the guarded data:
 *     cc: hash of the visible text of the 8 caption pages ("pv", decoding thread, when it changed); chsw: chswcd ("v");
 *     rd: the decoder's service set ("svc")
 *   acc      VERIF_REGION marker reached (region, write, function)
 *   cb       event handler entered (type)
 *   fetched  vbi_fetch_cc_page returned: page number, hash of the returned text
 *   call/ret API call of the raw decoder with argument / return value; rawdec: ids vbi_raw_decode returned
 *   call op=frame dt=<us>: the decoding thread enters vbi_decode; call op=fetch|switch; end: a thread finished
 *   selflock a thread asked for a mutex it owns (the process stops there instead of hanging)
 * Deadlock watchdog: no API call completed for 3 s while every worker thread sleeps (state S in /proc/self/task, i.e.
 * blocked on a mutex or pausing - a starved but runnable thread is R and never counts) -> exit 4 with the calls in progress.
 * With ThreadSanitizer the tracer is compiled out (its atomic counter would order everything) and TSan is the monitor.
 */
#define _GNU_SOURCE
#include <stdio.h>
#include <stdlib.h>
#include <string.h>
#include <stdint.h>
#include <pthread.h>
#include <sched.h>
#include <unistd.h>
#include <time.h>
#include <sys/syscall.h>
#include <dirent.h>
#include "config.h"
#include "src/misc.h"
#include "src/vbi.h"
#include "src/decoder.h"
#include "src/sampling_par.h"
#include "src/raw_decoder.h"
#include "src/io-sim.h"
#undef sprintf        /* misc.h poisons it for the library */

#if defined(__has_feature)
#  if __has_feature(thread_sanitizer)
#    define NO_TRACE 1
#  endif
#endif
#ifndef NO_TRACE
#  define NO_TRACE 0
#endif

enum { M_NONE, M_CC, M_CHSW, M_EV, M_RD, M_PI };
static const char *mname[] = { "", "cc", "chsw", "ev", "rd", "pi" };
enum { E_LOCK = 1, E_UNLOCK, E_TRY, E_ACC, E_CB, E_FETCHED, E_CALL, E_RET, E_RAWDEC, E_SELFLOCK, E_START, E_FRAME, E_END };

struct ev { uint64_t seq; uint8_t e, m, w, own; int n; const char *s, *fn; char *x; };
struct thr {
	const char *name; int is_dec; unsigned held; uint64_t rng;
	struct ev *b; size_t n, cap; volatile size_t pub_n;
	const char *last_r; int last_w; const char *last_fn;        /* marker already recorded since this thread's last mutex event */
	int pages_touched; unsigned chsw_sections; unsigned ncb;
	const char *cur_op; pid_t tid;
};
#define MAXT 8
static struct thr TH[MAXT];
static int nthr;
static __thread struct thr *T;

static int recording;      /* accessed with relaxed atomics (no ordering: TSan must not see synchronisation here) */
#define RECORDING __atomic_load_n(&recording, __ATOMIC_RELAXED)
static uint64_t gseq;
static vbi_decoder *vbi;
static vbi_raw_decoder rd;
static int have_rd;
static int mode_seq;
static unsigned seed;
static volatile unsigned frames_done, nframes_total;
static volatile int dec_finished;
static const char *logpath;
static unsigned inject[4096]; static int ninject;
static int handler_fetch;
static int yield_pct = 6;
static unsigned long ops_done;       /* API calls completed by all threads (relaxed counter, for the watchdog) */
#define OP_BEGIN(name) do { if (T) T->cur_op = (name); } while (0)
#define OP_END() do { __atomic_add_fetch(&ops_done, 1, __ATOMIC_RELAXED); } while (0)

static uint64_t mix(uint64_t x) { x += 0x9E3779B97F4A7C15ull; x = (x ^ (x >> 30)) * 0xBF58476D1CE4E5B9ull; x = (x ^ (x >> 27)) * 0x94D049BB133111EBull; return x ^ (x >> 31); }
static unsigned rnd(void) { T->rng = mix(T->rng); return (unsigned)(T->rng >> 33); }
static void maybe_yield(void) { if (!mode_seq && T && (rnd() % 100) < (unsigned) yield_pct) sched_yield(); }

static struct thr *new_thread(const char *name, int is_dec)
{
	struct thr *t = &TH[nthr++];
	memset(t, 0, sizeof *t);
	t->name = name; t->is_dec = is_dec; t->rng = mix(seed * 1000003ull + nthr);
	t->cap = 1 << 16; t->b = malloc(t->cap * sizeof *t->b);
	return t;
}

static struct ev *add_ev(int e)
{
	struct ev *v;
	if (T->n == T->cap) {           /* only the owner appends; the dumper reads a published prefix */
		struct ev *nb = malloc(2 * T->cap * sizeof *nb);
		memcpy(nb, T->b, T->n * sizeof *nb);
		T->b = nb; T->cap *= 2;     /* the old block is left alone (a concurrent dump may still read it) */
	}
	v = &T->b[T->n];
	memset(v, 0, sizeof *v);
	v->e = e; v->own = (uint8_t)(T - TH);
	v->seq = __atomic_add_fetch(&gseq, 1, __ATOMIC_SEQ_CST);
	return v;
}
static void commit_ev(void) { T->n++; __atomic_store_n(&T->pub_n, T->n, __ATOMIC_RELEASE); }

/* ------------------------------------------------------------------ what a mutex holder can see */
static uint64_t fnv(const void *p, size_t n, uint64_t h)
{
	const uint8_t *b = p; size_t i;
	for (i = 0; i < n; ++i) { h ^= b[i]; h *= 0x100000001B3ull; }
	return h;
}
static uint64_t page_hash(const vbi_page *pg) { return fnv(pg->text, sizeof(vbi_char) * pg->rows * pg->columns, 0xCBF29CE484222325ull); }

static const struct { unsigned id; const char *n; } SV[] = {
	{ VBI_SLICED_TELETEXT_B, "ttx" }, { VBI_SLICED_VPS, "vps" }, { VBI_SLICED_CAPTION_625, "cc" }, { VBI_SLICED_WSS_625, "wss" } };
static char *set_json(unsigned set)
{
	char *s = malloc(64); int i, first = 1;
	strcpy(s, "[");
	for (i = 0; i < 4; ++i) if (set & SV[i].id) { if (!first) strcat(s, ","); sprintf(s + strlen(s), "\"%s\"", SV[i].n); first = 0; }
	if (set & ~(VBI_SLICED_TELETEXT_B | VBI_SLICED_VPS | VBI_SLICED_CAPTION_625 | VBI_SLICED_WSS_625)) { if (!first) strcat(s, ","); strcat(s, "\"other\""); }
	strcat(s, "]");
	return s;
}

static char last_pv[8 * 20 + 8];
static char *pages_json(void)
{
	char buf[sizeof last_pv]; int i;
	buf[0] = 0;
	for (i = 0; i < 8; ++i) {
		cc_channel *ch = &vbi->cc.channel[i];
		sprintf(buf + strlen(buf), "%s\"%016llx\"", i ? "," : "", (unsigned long long) page_hash(&ch->pg[ch->hidden ^ 1]));
	}
	if (!strcmp(buf, last_pv)) return NULL;
	strcpy(last_pv, buf);
	{ char *s = malloc(strlen(buf) + 3); sprintf(s, "[%s]", buf); return s; }
}

/* ------------------------------------------------------------------ tracer: mutex wrappers and region marker */
static void dump_and_exit(int rc);

#if !NO_TRACE
int __real_pthread_mutex_lock(pthread_mutex_t *m);
int __real_pthread_mutex_unlock(pthread_mutex_t *m);
int __real_pthread_mutex_trylock(pthread_mutex_t *m);

static int mutex_id(pthread_mutex_t *m)
{
	if (vbi) {
		if (m == &vbi->cc.mutex) return M_CC;
		if (m == &vbi->chswcd_mutex) return M_CHSW;
		if (m == &vbi->event_mutex) return M_EV;
		if (m == &vbi->prog_info_mutex) return M_PI;
	}
	if (have_rd && m == &rd.mutex) return M_RD;
	return M_NONE;
}
static void forget_marker(void) { T->last_r = NULL; }

static int injecting;
int __wrap_pthread_mutex_lock(pthread_mutex_t *m)
{
	int id = (RECORDING && T) ? mutex_id(m) : 0, r;
	if (id) {
		if (T->held & (1u << id)) {          /* would never return: the library's mutexes do not recurse */
			struct ev *v = add_ev(E_SELFLOCK); v->m = id; commit_ev();
			dump_and_exit(3);
		}
		maybe_yield();
	}
	r = __real_pthread_mutex_lock(m);
	if (id) { struct ev *v = add_ev(E_LOCK); v->m = id; commit_ev(); T->held |= 1u << id; forget_marker(); }
	return r;
}
int __wrap_pthread_mutex_trylock(pthread_mutex_t *m)
{
	int id = (RECORDING && T) ? mutex_id(m) : 0, r;
	r = __real_pthread_mutex_trylock(m);
	if (id) { struct ev *v = add_ev(E_TRY); v->m = id; v->n = (r == 0); commit_ev(); if (r == 0) T->held |= 1u << id; forget_marker(); }
	return r;
}
int __wrap_pthread_mutex_unlock(pthread_mutex_t *m)
{
	int id = (RECORDING && T) ? mutex_id(m) : 0, r, inj = 0;
	if (id) {
		struct ev *v = add_ev(E_UNLOCK); v->m = id;
		if (id == M_CC && T->is_dec && T->pages_touched) { v->x = pages_json(); T->pages_touched = 0; }
		else if (id == M_CHSW) { v->n = vbi->chswcd; }
		else if (id == M_RD) { v->x = set_json(vbi3_raw_decoder_services((vbi3_raw_decoder *) rd.pattern)); }
		commit_ev();
		T->held &= ~(1u << id); forget_marker();
		if (id == M_CHSW && T->is_dec && !injecting) {
			int i;
			T->chsw_sections++;
			for (i = 0; i < ninject; ++i) if (inject[i] == T->chsw_sections) inj = 1;
		}
	}
	r = __real_pthread_mutex_unlock(m);
	if (inj) { injecting = 1; vbi_channel_switched(vbi, 0); injecting = 0; }
	if (id) maybe_yield();
	return r;
}

void zvbi_verif_region(const char *region, int write, const char *function)
{
	if (!RECORDING || !T) return;
	if (!strcmp(region, "cc.pages") && write) T->pages_touched = 1;
	if (T->last_r && !strcmp(T->last_r, region) && T->last_w >= write) return;   /* same lockset, same region: nothing new */
	{ struct ev *v = add_ev(E_ACC); v->s = region; v->w = write; v->fn = function; commit_ev(); }
	T->last_r = region; T->last_w = write; T->last_fn = function;
	maybe_yield();
}
#define TRACE(stmt) do { if (RECORDING && T) { stmt; } } while (0)
#else
#define TRACE(stmt) do {} while (0)
#endif

static int cmp_ev(const void *a, const void *b) { uint64_t x = ((const struct ev *) a)->seq, y = ((const struct ev *) b)->seq; return x < y ? -1 : x > y; }
static pthread_mutex_t dump_mx = PTHREAD_MUTEX_INITIALIZER;
static void dump_log(void)
{
	static const char *en[] = { "", "lock", "unlock", "trylock", "acc", "cb", "fetched", "call", "ret", "rawdec", "selflock", "start", "call", "end" };
	size_t tot = 0, k = 0, i, a; int t; struct ev *all; size_t cnt[MAXT];
	FILE *f = fopen(logpath, "w");
	if (!f) { perror(logpath); return; }
	for (t = 0; t < nthr; ++t) { cnt[t] = __atomic_load_n(&TH[t].pub_n, __ATOMIC_ACQUIRE); tot += cnt[t]; }
	all = malloc((tot + 1) * sizeof *all);
	for (t = 0; t < nthr; ++t) for (i = 0; i < cnt[t]; ++i) all[k++] = TH[t].b[i];
	qsort(all, tot, sizeof *all, cmp_ev);
	for (a = 0; a < tot; ++a) {
		struct ev *v = &all[a];
		fprintf(f, "{\"seq\":%llu,\"e\":\"%s\",\"t\":\"%s\"", (unsigned long long) v->seq, en[v->e], TH[v->own].name);
		switch (v->e) {
		case E_LOCK: case E_SELFLOCK: fprintf(f, ",\"m\":\"%s\"", mname[v->m]); break;
		case E_TRY: fprintf(f, ",\"m\":\"%s\",\"ok\":%d", mname[v->m], v->n); break;
		case E_UNLOCK:
			fprintf(f, ",\"m\":\"%s\"", mname[v->m]);
			if (v->m == M_CHSW) fprintf(f, ",\"v\":%d", v->n);
			if (v->m == M_CC && v->x) fprintf(f, ",\"pv\":%s", v->x);
			if (v->m == M_RD && v->x) fprintf(f, ",\"svc\":%s", v->x);
			break;
		case E_ACC: fprintf(f, ",\"r\":\"%s\",\"w\":%d,\"fn\":\"%s\"", v->s, v->w, v->fn); break;
		case E_CB: fprintf(f, ",\"type\":%d", v->n); break;
		case E_FETCHED: fprintf(f, ",\"pg\":%d,\"h\":\"%s\"", v->n, v->x); break;
		case E_CALL: fprintf(f, ",\"op\":\"%s\",\"arg\":%s", v->s, v->x ? v->x : "[]"); break;
		case E_RET: fprintf(f, ",\"op\":\"%s\",\"val\":%s", v->s, v->x ? v->x : "[]"); break;
		case E_RAWDEC: fprintf(f, ",\"n\":%d,\"ids\":%s", v->n, v->x); break;
		case E_START: fprintf(f, ",\"%s\":%s", v->s, v->x); break;
		case E_FRAME: fprintf(f, ",\"op\":\"frame\",\"dt\":%d", v->n); break;
		}
		fprintf(f, "}\n");
	}
	fclose(f);
}
static void dump_and_exit(int rc)
{
	pthread_mutex_lock(&dump_mx);     /* (the driver's own mutex: not one of the library's, ignored by the tracer) */
	__atomic_store_n(&recording, 0, __ATOMIC_RELAXED);
	usleep(20000);                    /* let the other threads finish the event they are writing */
	dump_log();
	printf("{\"exit\":%d,\"frames\":%u}\n", rc, __atomic_load_n(&frames_done, __ATOMIC_RELAXED));
	fflush(stdout);
	_exit(rc);
}

/* a sanitizer is about to end the process (e.g. use after free of the job table): keep what was recorded */
#if defined(__has_feature)
#  if __has_feature(address_sanitizer)
#    define HAVE_DEATH_CB 1
void __sanitizer_set_death_callback(void (*cb)(void));
static void on_death(void)
{
	__atomic_store_n(&recording, 0, __ATOMIC_RELAXED);
	usleep(20000);
	dump_log();
}
#  endif
#endif

/* ------------------------------------------------------------------ service decoder */
struct frame { vbi_sliced s; int n; int dt_us; };
static struct frame *frames; static unsigned nframes;
static int nfetch, nswitch, nswreq;

static void fetch_and_log(int pgno)
{
	static __thread vbi_page pg;
	int ok;
	const char *outer = T ? T->cur_op : NULL;
	TRACE({ struct ev *v = add_ev(E_CALL); v->s = "fetch"; commit_ev(); });
	OP_BEGIN("vbi_fetch_cc_page");
	ok = vbi_fetch_cc_page(vbi, &pg, pgno, TRUE);
	OP_END();
	if (T) T->cur_op = outer;
	if (ok) {
		TRACE({ struct ev *v = add_ev(E_FETCHED); v->n = pgno; v->x = malloc(20);
			sprintf(v->x, "%016llx", (unsigned long long) page_hash(&pg)); commit_ev(); });
	}
}

static void handler(vbi_event *e, void *ud)
{
	unsigned k;
	(void) ud;
	TRACE({ struct ev *v = add_ev(E_CB); v->n = e->type; commit_ev(); });
	if (!T) return;
	k = T->ncb++;
	/* the decision depends on the callback index only, so that the single-threaded run of the same stream does the same */
	if (handler_fetch && (mix(seed * 7919ull + k) % 3) == 0)
		fetch_and_log(e->type == VBI_EVENT_CAPTION ? e->ev.caption.pgno : 1 + (int)(mix(k) % 8));
}

/* all threads start their streams together (relaxed counter: no ordering that a race detector could take for synchronisation) */
static int started, expected_threads;
static void thread_begin(struct thr *t)
{
	T = t; T->tid = (pid_t) syscall(SYS_gettid);
	__atomic_add_fetch(&started, 1, __ATOMIC_RELAXED);
	while (__atomic_load_n(&started, __ATOMIC_RELAXED) < expected_threads) sched_yield();
}
static void thread_end(void) { TRACE({ add_ev(E_END); commit_ev(); }); if (T) T->cur_op = NULL; }

static void *dec_thread(void *arg)
{
	unsigned i; double tmax = 1000.0;
	thread_begin(arg);
	for (i = 0; i < nframes; ++i) {
		vbi_sliced s = frames[i].s;      /* vbi_decode_caption modifies the buffer */
		int dt = i ? frames[i].dt_us : 33367;
		double t = tmax + dt * 1e-6;     /* the decoder keeps the latest time seen: steps are relative to it */
		TRACE({ struct ev *v = add_ev(E_FRAME); v->n = dt; commit_ev(); });
		OP_BEGIN("vbi_decode");
		vbi_decode(vbi, &s, frames[i].n, t);
		OP_END();
		if (t > tmax) tmax = t;
		__atomic_store_n(&frames_done, i + 1, __ATOMIC_RELAXED);
		maybe_yield();
	}
	thread_end();
	__atomic_store_n(&dec_finished, 1, __ATOMIC_RELAXED);
	return NULL;
}

/* pause until the decoding thread moved on (short sleeps: a waiting thread is asleep, not spinning) */
static void wait_progress(unsigned last)
{
	int k = 0;
	while (!__atomic_load_n(&dec_finished, __ATOMIC_RELAXED) && __atomic_load_n(&frames_done, __ATOMIC_RELAXED) == last) {
		if (++k < 20) sched_yield(); else usleep(1000);
	}
}

static void *fetch_thread(void *arg)
{
	unsigned n = 0, maxn = 2 * nframes + 16;
	thread_begin(arg);
	while (!__atomic_load_n(&dec_finished, __ATOMIC_RELAXED) && n < maxn) {
		unsigned r = rnd();
		fetch_and_log((r & 3) ? 1 + (r >> 2) % 4 : 5 + (r >> 2) % 4);
		n++;
		if (rnd() & 1) wait_progress(__atomic_load_n(&frames_done, __ATOMIC_RELAXED));
		else maybe_yield();
	}
	thread_end();
	return NULL;
}

static void request_switch(void)
{
	TRACE({ struct ev *v = add_ev(E_CALL); v->s = "switch"; commit_ev(); });
	OP_BEGIN("vbi_channel_switched");
	vbi_channel_switched(vbi, 0);
	OP_END();
}

static void *switch_thread(void *arg)
{
	int k;
	thread_begin(arg);
	for (k = 0; k < nswreq; ++k) {
		unsigned target = (unsigned)((uint64_t) nframes * (k + 1) / (nswreq + 1)) + rnd() % 5, w = 0;
		while (!__atomic_load_n(&dec_finished, __ATOMIC_RELAXED) && __atomic_load_n(&frames_done, __ATOMIC_RELAXED) < target) {
			if (++w < 20) sched_yield(); else usleep(1000);
		}
		if (__atomic_load_n(&dec_finished, __ATOMIC_RELAXED)) break;
		request_switch();
		if (rnd() % 4 == 0) request_switch();     /* a second request before the first one was served */
	}
	thread_end();
	return NULL;
}

static int hexv(int c) { return c <= '9' ? c - '0' : (c | 32) - 'a' + 10; }

static void run_cc(void)
{
	pthread_t th[MAXT]; struct thr *ts[MAXT]; int i, n = 0;
	static const char *fn[] = { "f1", "f2", "f3" }, *sn[] = { "sw", "sw2" };
	vbi = vbi_decoder_new();
	vbi_event_handler_register(vbi, VBI_EVENT_CAPTION | VBI_EVENT_NETWORK | VBI_EVENT_NETWORK_ID | VBI_EVENT_ASPECT
				   | VBI_EVENT_PROG_INFO | VBI_EVENT_TTX_PAGE, handler, NULL);
	ts[n++] = new_thread("dec", 1);
	for (i = 0; i < nfetch && !mode_seq; ++i) ts[n++] = new_thread(fn[i], 0);
	for (i = 0; i < nswitch && !mode_seq; ++i) ts[n++] = new_thread(sn[i], 0);
	T = ts[0];
	last_pv[0] = 0;
	__atomic_store_n(&recording, !NO_TRACE, __ATOMIC_RELAXED);
	TRACE({ struct ev *v = add_ev(E_START); v->s = "pv"; v->x = pages_json(); commit_ev(); });   /* the pages before the first frame */
#if !NO_TRACE
	{ int j; for (j = 0; j < ninject; ++j) if (inject[j] == 0) { injecting = 1; vbi_channel_switched(vbi, 0); injecting = 0; } }
#endif
	T = NULL;
	expected_threads = n;
	pthread_create(&th[0], NULL, dec_thread, ts[0]);
	for (i = 1; i < n; ++i)
		pthread_create(&th[i], NULL, ts[i]->name[0] == 'f' ? fetch_thread : switch_thread, ts[i]);
	for (i = 0; i < n; ++i) pthread_join(th[i], NULL);
	__atomic_store_n(&recording, 0, __ATOMIC_RELAXED);
	vbi_decoder_delete(vbi);
}

/* ------------------------------------------------------------------ raw decoder */
static int nmod, ncheck, ndecodes, nops;
static uint8_t *raw; static vbi_sliced *sliced_out; static unsigned scan_lines;

static void log_set(int e, const char *op, unsigned set)
{
	TRACE({ struct ev *v = add_ev(e); v->s = op; v->x = set_json(set); commit_ev(); });
	(void) e; (void) op; (void) set;
}

static int geom_start[2]; static unsigned geom_count[2];

/* geometry changes are made by the thread that decodes (between two decodes); the others add / remove / check meanwhile */
static void do_resize(const char *op, int full)
{
	int st[2]; unsigned ct[2];
	st[0] = geom_start[0]; st[1] = geom_start[1];
	ct[0] = full ? geom_count[0] : 0; ct[1] = full ? geom_count[1] : 0;
	log_set(E_CALL, op, 0);
	OP_BEGIN("vbi_raw_decoder_resize");
	vbi_raw_decoder_resize(&rd, st, ct);
	OP_END();
	log_set(E_RET, op, 0);
}

static void *rawdec_thread(void *arg)
{
	int i, j, zero = 0;
	thread_begin(arg);
	for (i = 0; i < ndecodes; ++i) {
		int n; unsigned ids = 0, r = rnd() % 64;
		if (zero && r < 24) { do_resize("resize_full", 1); zero = 0; }
		else if (r == 0 && !zero) { do_resize("resize_zero", 0); zero = 1; }
		else if (r <= 3) do_resize("resize_same", !zero);
		else if (r == 4) {
			log_set(E_CALL, "reset", 0);
			OP_BEGIN("vbi_raw_decoder_reset");
			vbi_raw_decoder_reset(&rd);
			OP_END();
			log_set(E_RET, "reset", 0);
		}
		log_set(E_CALL, "decode", 0);
		OP_BEGIN("vbi_raw_decode");
		n = vbi_raw_decode(&rd, raw, sliced_out);
		OP_END();
		for (j = 0; j < n; ++j) ids |= sliced_out[j].id;
		TRACE({ struct ev *v = add_ev(E_RAWDEC); v->n = n; v->x = set_json(ids); commit_ev(); });
		__atomic_store_n(&frames_done, i + 1, __ATOMIC_RELAXED);
		if (rnd() & 1) sched_yield();        /* glibc mutexes are not fair: let the other threads in */
	}
	thread_end();
	__atomic_store_n(&dec_finished, 1, __ATOMIC_RELAXED);
	return NULL;
}

static unsigned rnd_set(void)
{
	unsigned r = rnd(), set = 0; int i;
	for (i = 0; i < 4; ++i) if (r & (1u << i)) set |= SV[i].id;
	if (!set) set = SV[(r >> 4) % 4].id;
	return set;
}

static void *mod_thread(void *arg)
{
	int k;
	thread_begin(arg);
	for (k = 0; k < nops && !__atomic_load_n(&dec_finished, __ATOMIC_RELAXED); ++k) {
		unsigned set = rnd_set(), r;
		if (rnd() & 1) {
			log_set(E_CALL, "add", set); OP_BEGIN("vbi_raw_decoder_add_services");
			r = vbi_raw_decoder_add_services(&rd, set, 0); OP_END(); log_set(E_RET, "add", r);
		} else {
			log_set(E_CALL, "remove", set); OP_BEGIN("vbi_raw_decoder_remove_services");
			r = vbi_raw_decoder_remove_services(&rd, set); OP_END(); log_set(E_RET, "remove", r);
		}
		if (rnd() & 1) wait_progress(__atomic_load_n(&frames_done, __ATOMIC_RELAXED)); else maybe_yield();
	}
	thread_end();
	return NULL;
}

static void *check_thread(void *arg)
{
	int k;
	thread_begin(arg);
	for (k = 0; k < nops && !__atomic_load_n(&dec_finished, __ATOMIC_RELAXED); ++k) {
		unsigned set = (rnd() % 8) ? rnd_set() : 0, r;      /* also the empty set */
		log_set(E_CALL, "check", set); OP_BEGIN("vbi_raw_decoder_check_services");
		r = vbi_raw_decoder_check_services(&rd, set, 0); OP_END(); log_set(E_RET, "check", r);
		if (rnd() & 1) wait_progress(__atomic_load_n(&frames_done, __ATOMIC_RELAXED)); else maybe_yield();
	}
	thread_end();
	return NULL;
}

static void run_rd(void)
{
	pthread_t th[MAXT]; struct thr *ts[MAXT]; int i, n = 0, ns = 0, max_rate;
	static const char *mn[] = { "mod1", "mod2" }, *cn[] = { "chk1", "chk2" };
	unsigned all = VBI_SLICED_TELETEXT_B | VBI_SLICED_VPS | VBI_SLICED_CAPTION_625 | VBI_SLICED_WSS_625, line;
	vbi_sliced tx[32];
	size_t size;
	vbi_raw_decoder_init(&rd);
	have_rd = 1;
	vbi_raw_decoder_parameters(&rd, all, 625, &max_rate);
	scan_lines = rd.count[0] + rd.count[1];
	geom_start[0] = rd.start[0]; geom_start[1] = rd.start[1]; geom_count[0] = rd.count[0]; geom_count[1] = rd.count[1];
	size = (size_t) scan_lines * rd.bytes_per_line;
	raw = malloc(size);
	sliced_out = calloc(scan_lines + 1, sizeof *sliced_out);
	memset(tx, 0, sizeof tx);
	for (line = 7; line <= 15; ++line) { tx[ns].id = VBI_SLICED_TELETEXT_B; tx[ns].line = line; memset(tx[ns].data, 0x15 + line, 42); ns++; }
	tx[ns].id = VBI_SLICED_VPS; tx[ns].line = 16; memset(tx[ns].data, 0x5A, 13); ns++;
	tx[ns].id = VBI_SLICED_CAPTION_625; tx[ns].line = 22; tx[ns].data[0] = 0xC1; tx[ns].data[1] = 0xC2; ns++;
	tx[ns].id = VBI_SLICED_WSS_625; tx[ns].line = 23; tx[ns].data[0] = 0x08; tx[ns].data[1] = 0x06; ns++;
	if (!vbi_raw_vbi_image(raw, size, (vbi_sampling_par *) &rd, 0, 0, FALSE, tx, ns)) { fprintf(stderr, "cannot render the raw image\n"); exit(2); }
	vbi_raw_decoder_add_services(&rd, (seed & 1) ? all : VBI_SLICED_TELETEXT_B, 0);
	ts[n++] = new_thread("dec", 1);
	for (i = 0; i < nmod; ++i) ts[n++] = new_thread(mn[i], 0);
	for (i = 0; i < ncheck; ++i) ts[n++] = new_thread(cn[i], 0);
	/* the service set at the start, as the first event */
	T = ts[0]; __atomic_store_n(&recording, !NO_TRACE, __ATOMIC_RELAXED);
	TRACE({ struct ev *v = add_ev(E_START); v->s = "svc"; v->x = set_json(vbi3_raw_decoder_services((vbi3_raw_decoder *) rd.pattern)); commit_ev(); });
	T = NULL;
	expected_threads = n;
	pthread_create(&th[0], NULL, rawdec_thread, ts[0]);
	for (i = 1; i < n; ++i) pthread_create(&th[i], NULL, ts[i]->name[0] == 'm' ? mod_thread : check_thread, ts[i]);
	for (i = 0; i < n; ++i) pthread_join(th[i], NULL);
	__atomic_store_n(&recording, 0, __ATOMIC_RELAXED);
	have_rd = 0;
	vbi_raw_decoder_destroy(&rd);
	free(raw); free(sliced_out);
}

/* ------------------------------------------------------------------ watchdog: a deadlock is reported instead of hanging */
static int thread_state(pid_t tid)
{
	char path[64], buf[256], *p; FILE *f; int st = '?';
	snprintf(path, sizeof path, "/proc/self/task/%d/stat", (int) tid);
	f = fopen(path, "r");
	if (!f) return '?';
	if (fgets(buf, sizeof buf, f) && (p = strrchr(buf, ')')) && p[1] == ' ') st = p[2];
	fclose(f);
	return st;
}

static void *watchdog(void *arg)
{
	unsigned long last = 0; int idle = 0;
	(void) arg;
	for (;;) {
		unsigned long now; int t, all_asleep = 1, workers = 0;
		usleep(100000);
		now = __atomic_load_n(&ops_done, __ATOMIC_RELAXED);
		for (t = 0; t < nthr; ++t) {
			if (!TH[t].tid || !TH[t].cur_op) continue;      /* not started / finished */
			workers++;
			if (thread_state(TH[t].tid) != 'S') all_asleep = 0;
		}
		/* no call completed, and nobody is runnable: a thread that is merely starved on a busy machine is R */
		if (now == last && workers && all_asleep) idle++; else idle = 0;
		last = now;
		if (idle >= 30) {
			char msg[1024]; size_t n;
			n = snprintf(msg, sizeof msg, "\nWATCHDOG: deadlock, no API call completed for 3 s and every thread is blocked; calls in progress:");
			for (t = 0; t < nthr; ++t) if (TH[t].tid && TH[t].cur_op && n < sizeof msg - 80)
				n += snprintf(msg + n, sizeof msg - n, " %s=%s", TH[t].name, TH[t].cur_op);
			snprintf(msg + n, sizeof msg - n, " .\n");
			fputs(msg, stderr);          /* one write: sanitizer reports of other threads must not split the line */
			dump_and_exit(4);
		}
	}
	return NULL;
}

int main(int argc, char **argv)
{
	char line[512], mode[16] = "cc";
	FILE *f; pthread_t wd;
	size_t cap = 0; int next_dt = 33367;
	if (argc < 3) { fprintf(stderr, "usage: drv_locks <script> <log>\n"); return 2; }
	logpath = argv[2];
	f = fopen(argv[1], "r");
	if (!f) { perror(argv[1]); return 2; }
	while (fgets(line, sizeof line, f)) {
		if (line[0] == 'M') sscanf(line + 1, "%15s", mode);
		else if (line[0] == 'S') sscanf(line + 1, "%u", &seed);
		else if (line[0] == 'Y') sscanf(line + 1, "%d", &yield_pct);
		else if (line[0] == 'N') {
			int a = 0, b = 0, c = 0, d = 0;
			sscanf(line + 1, "%d %d %d %d", &a, &b, &c, &d);
			if (!strcmp(mode, "rd")) { nmod = a; ncheck = b; ndecodes = c; nops = d; }
			else { nfetch = a; nswitch = b; handler_fetch = c; nswreq = d; }
		} else if (line[0] == 'J') {
			char *p = line + 1; unsigned j; int used;
			while (sscanf(p, "%u%n", &j, &used) == 1 && ninject < 4096) { inject[ninject++] = j; p += used; }
		} else if (line[0] == 'T') {
			sscanf(line + 1, "%d", &next_dt);
		} else if (line[0] == 'P' || line[0] == 'X' || line[0] == 'E') {
			struct frame *fr;
			if (nframes == cap) { cap = cap ? 2 * cap : 1024; frames = realloc(frames, cap * sizeof *frames); }
			fr = &frames[nframes++];
			memset(fr, 0, sizeof *fr);
			fr->dt_us = next_dt; next_dt = 33367;
			if (line[0] == 'P') {
				unsigned l, a, b;
				sscanf(line + 1, "%u %x %x", &l, &a, &b);
				fr->s.id = VBI_SLICED_CAPTION_525; fr->s.line = l; fr->s.data[0] = a; fr->s.data[1] = b; fr->n = 1;
			} else if (line[0] == 'X') {
				char *p = line + 1; int i;
				while (*p == ' ') p++;
				for (i = 0; i < 42 && p[2 * i] > ' ' && p[2 * i + 1] > ' '; ++i) fr->s.data[i] = hexv(p[2 * i]) * 16 + hexv(p[2 * i + 1]);
				fr->s.id = VBI_SLICED_TELETEXT_B; fr->s.line = 7; fr->n = 1;
			}
		}
	}
	fclose(f);
	mode_seq = !strcmp(mode, "ccseq");
	nframes_total = nframes;
#ifdef HAVE_DEATH_CB
	__sanitizer_set_death_callback(on_death);
#endif
	pthread_create(&wd, NULL, watchdog, NULL);
	if (!strcmp(mode, "rd")) run_rd(); else run_cc();
	dump_log();
	printf("{\"exit\":0,\"frames\":%u,\"events\":%llu}\n", frames_done, (unsigned long long) gseq);
	return 0;
}
